"""C14 building blocks (call histories on method objects).

* the API objects are built directly in the state `compute` starts from
  (`__new__` + exactly the attributes `compute`/`get_*` read), with the REAL back-ends
  of /repo on symbolic tensors, mirroring the `_prepare_backend` wiring;
* `FaultPlan`: transient failure of a user callable at a symbolic call index;
* `tight`/`step_shadows`: symbolic step counts with a solver-verified value range (so
  that `range(num_step)` enumerates a handful of values instead of -64..64);
* `LinearBackend`: stand-in for `PtTebdBackend` where only the step/time bookkeeping
  of `PtTebd` matters (every back-end call is a non-commuting symbolic linear map).
"""
from fractions import Fraction

import numpy as np
import z3

import oqupy
import oqupy.process_tensor as ptm
from oqupy.base_api import BaseAPIClass
from oqupy.tempo import Tempo, MeanFieldTempo, GibbsTempo, GibbsParameters
from oqupy.pt_tempo import PtTempo
from oqupy.backends.tempo_backend import TempoBackend, MeanFieldTempoBackend, TIBaseBackend
from oqupy.backends.pt_tempo_backend import PtTempoBackend

from . import sym, env, lib
from .sym import S, SI

EPS_REAL = lib.EPS_REAL


# --------------------------------------------------------------------------
# symbolic step counts
# --------------------------------------------------------------------------
def tight(x, lo, hi):
    """SI with the declared range [lo, hi]; the range is VERIFIED against the current
    path condition (one solver query), so concretisation inside it is exhaustive."""
    if not isinstance(x, SI):
        return x
    e = z3.simplify(x.e)
    if z3.is_int_value(e):
        return e.as_long()
    if sym.CTX is not None and sym._feasible(z3.Or(x.e < lo, x.e > hi)):
        raise sym.Inconclusive("declared range [%d,%d] does not cover %s" % (lo, hi, x.e))
    return SI(x.e, lo, hi)


def step_shadows(module, lo, hi, names=("int", "float", "max")):
    """module-global shadows for `int(...)`, `float(...)`, `max(...)` of a step computation"""
    def s_int(x, *a):
        return tight(env.sym_int(x, *a), lo, hi)

    def s_max(*a, **kw):
        return tight(env.sym_max(*a, **kw), lo, hi)
    table = {"int": s_int, "max": s_max, "float": env.sym_float, "complex": env.sym_complex,
             "isinstance": env.sym_isinstance}
    return {"%s.%s" % (module, n): table[n] for n in names}


def sym_maximum(vals):
    """max of ints / SI without forking (If-term)"""
    if not any(isinstance(v, SI) for v in vals):
        return max(vals)
    m = sym.toi(vals[0])
    for v in vals[1:]:
        v = sym.toi(v)
        m = z3.If(v > m, v, m)
    return SI(m, min(getattr(v, "lo", v) for v in vals), max(getattr(v, "hi", v) for v in vals))


def as_time(start, k, dt):
    """start + k*dt as the mode's scalar (S in sym mode, float otherwise)"""
    if isinstance(start, (SI, S)) or isinstance(k, (SI, S)):
        return S.of(start) + S.of(k) * dt
    return float(start) + float(k) * dt


# --------------------------------------------------------------------------
# fault injection
# --------------------------------------------------------------------------
class UserFault(Exception):
    """raised by the harness's user callable (Hamiltonian / field equation stand-in)"""


class FaultPlan:
    """Every evaluation of a user callable calls `tick`; the evaluation whose global
    index equals `fault` raises once (transient failure)."""

    def __init__(self, fault=None):
        self.fault = fault
        self.n = 0
        self.fired = None
        self.log = []

    def tick(self, what=""):
        i = self.n
        self.n += 1
        self.log.append(what)
        if self.fault is not None and self.fired is None and self.fault == i:
            self.fired = (i, what)
            raise UserFault("injected failure of user callable %r (call %d)" % (what, i))


# --------------------------------------------------------------------------
# Tempo / MeanFieldTempo on the real back-ends
# --------------------------------------------------------------------------
class _Params:
    """the attributes of TempoParameters that compute/_time/_get_num_step/_compute_field read"""

    def __init__(self, dt, dkmax):
        self.dt = dt
        self.dkmax = dkmax


def make_tempo(d, K, rho0, influence, P1, P2, start, dt, plan=None):
    """oqupy.Tempo as left by __init__/_prepare_backend: real TempoBackend, symbolic
    influences, propagator closure standing in for `system.get_propagators(...)`
    (evaluates the user's Hamiltonian <=> plan.tick)."""
    D = d * d
    t = Tempo.__new__(Tempo)
    BaseAPIClass.__init__(t, None, None)
    t._dimension = d
    t._start_time = start
    t._parameters = _Params(dt, K)
    t._dynamics = None

    def propagators(step):
        if plan is not None:
            plan.tick("hamiltonian(step %d)" % step)
        return P1[step], P2[step]
    t._backend_instance = TempoBackend(np.array(rho0).reshape(D), influence, np.identity(d), propagators,
                                       np.ones(D), np.ones(D), K, EPS_REAL, dim=d)
    return t


def make_mean_field_tempo(d, K, rho0, influence, A1, B1, A2, start, dt, field0, eom, plan=None):
    """oqupy.MeanFieldTempo as left by __init__/_prepare_backend: real MeanFieldTempoBackend
    wired to the REAL bound methods _compute_field / _compute_field_derivative; the
    propagators of system s depend on the field: first half step A1[s][k] + field*B1[s][k],
    second half step A2[s][k].  One system if `influence` is a single callable, else one
    system per list entry (rho0, influence, A1, B1, A2 are then lists over the systems)."""
    D = d * d
    if not isinstance(influence, (list, tuple)):
        rho0, influence, A1, B1, A2 = [rho0], [influence], [A1], [B1], [A2]
    ns = len(influence)
    t = MeanFieldTempo.__new__(MeanFieldTempo)
    BaseAPIClass.__init__(t, None, None)
    t._dynamics = None
    t._start_time = start
    t._parameters = _Params(dt, K)
    t._parsed_parameters_dict = {"hs_dim": [d] * ns}

    def field_eom(tm, states, field):
        if plan is not None:
            plan.tick("field_eom")
        return eom(tm, states, field)

    class _MFS:
        pass
    mfs = _MFS()
    mfs.field_eom = field_eom
    t._mean_field_system = mfs

    def mk_propagators(s):
        def propagators(step, field, field_derivative):
            if plan is not None:
                plan.tick("hamiltonian(system %d, step %d)" % (s, step))
            return A1[s][step] + field * B1[s][step], A2[s][step]
        return propagators
    t._backend_instance = MeanFieldTempoBackend(
        [np.array(r).reshape(d, d) for r in rho0], field0, list(influence), [np.identity(d)] * ns,
        [mk_propagators(s) for s in range(ns)], t._compute_field, t._compute_field_derivative,
        [np.ones(D) for _ in range(ns)], [np.ones(D) for _ in range(ns)], K, EPS_REAL,
        config=None, degeneracy_maps_list=[None] * ns, dim_list=[d] * ns)
    return t


def dyn_lists(dyn):
    """(times, states) of a Dynamics as python lists (no dtype conversion)"""
    return list(dyn._times), list(dyn._states)


def mf_lists(dyn):
    """(times, fields, states of system 0, states of system 1, ...)"""
    return (list(dyn._times), list(dyn._fields)) + tuple(list(sd._states) for sd in dyn._system_dynamics)


# --------------------------------------------------------------------------
# PtTempo / GibbsTempo
# --------------------------------------------------------------------------
def make_pt_tempo(d, N, K, influence, dt=0.1):
    """oqupy.PtTempo as left by __init__/_init_pt_tempo_backend (real PtTempoBackend,
    SimpleProcessTensor), symbolic influences."""
    D = d * d
    p = PtTempo.__new__(PtTempo)
    BaseAPIClass.__init__(p, None, None)
    p._dimension = d
    p._num_steps = N
    p._process_tensor = ptm.SimpleProcessTensor(hilbert_space_dimension=d, dt=dt)
    p._backend_instance = PtTempoBackend(d, influence, p._process_tensor, np.ones(D), np.ones(D), N,
                                         (K if K is not None else N), EPS_REAL, {})
    return p


def pt_tensors(pt):
    return [pt.get_mpo_tensor(k, transformed=False) for k in range(len(pt))]


def pt_invariants(pt):
    """gauge-invariant content of a process tensor in MPO form: for every k the contraction
    M_0 ... M_{k-1} cap_k over all bond legs (physical legs kept).  Two independent SVD-based
    computations agree on these, while the individual MPO tensors are only defined up to a
    gauge on the bonds (degenerate singular values: LAPACK output is alignment dependent)."""
    n = len(pt)
    out = []
    acc = None
    for k in range(n + 1):
        cap = np.asarray(pt.get_cap_tensor(k))
        if acc is None:
            out.append(cap.reshape(-1)[:1] if k == 0 else None)
        else:
            out.append(np.tensordot(acc, cap, axes=([acc.ndim - 1], [0])))
        if k == n:
            break
        m = np.asarray(pt.get_mpo_tensor(k, transformed=False))
        m = np.moveaxis(m, 1, -1)               # (bl, phys..., br)
        acc = m[0] if acc is None else np.tensordot(acc, m, axes=([acc.ndim - 1], [0]))
    return out


def make_gibbs(d, n_steps, prop, coeffs, coupling_diag, dt=0.25):
    """oqupy.GibbsTempo as left by __init__/_prepare_backend: real TIBaseBackend with
    half-step propagator `prop`, coefficient function `coeffs(k)`, diagonal coupling."""
    g = GibbsTempo.__new__(GibbsTempo)
    BaseAPIClass.__init__(g, None, None)
    g._dimension = d
    g._parameters = GibbsParameters(n_steps, EPS_REAL)
    g._dt = dt
    g._dynamics = None
    cd = np.array(coupling_diag, dtype=float)
    operators = (-cd, cd, np.zeros((d,)))
    g._backend_instance = TIBaseBackend(d, EPS_REAL, prop, coeffs, operators, max_step=n_steps, config={})
    return g


def amax_concrete(a):
    """`numpy.amax` for the (concrete) singular values of the SVD stub; returns a float so
    that `singular_values / amax(...)` stays an ndarray operation (S.__rtruediv__ does not
    defer to ndarray)"""
    return max(float(S.of(x).re) for x in np.asarray(a, dtype=object).flat)


_EXP_SYMS = {}


def exp_as_symbols(x):
    """`exp` on symbolic arguments: one fresh real/complex symbol per syntactically distinct
    (simplified) argument, exp(0) = 1.  Weaker than congruence (semantically equal but
    syntactically different arguments get independent symbols), hence sound for `unsat`;
    a `sat` is replayed on the real code anyway."""
    def one(v):
        v = S.of(v)
        if v.is_concrete():
            return sym.sym_exp(v)
        a, b = z3.simplify(sym.zr(v.re)), z3.simplify(sym.zr(v.im))
        key = (a.sexpr(), b.sexpr())
        if key not in _EXP_SYMS:
            n = len(_EXP_SYMS)
            re = z3.Real("expsym%d_re" % n)
            im = Fraction(0) if sym._isz(v.im) else z3.Real("expsym%d_im" % n)
            _EXP_SYMS[key] = S(re, im)
        return _EXP_SYMS[key]
    if isinstance(x, np.ndarray):
        out = np.empty(x.shape, dtype=object)
        for idx in np.ndindex(*x.shape):
            out[idx] = one(x[idx])
        return out
    return one(x)


GIBBS_ENV = {"extra": {"oqupy.backends.tempo_backend.amax": amax_concrete,
                       "oqupy.backends.tempo_backend.exp": exp_as_symbols}}


# --------------------------------------------------------------------------
# PT-TEBD: linear stand-in back-end (step / time bookkeeping only)
# --------------------------------------------------------------------------
class LinearBackend:
    """Stand-in for PtTebdBackend where only PtTebd's own step/time/control bookkeeping
    matters.  The chain state is a vector v (Liouville vector of site 0); every back-end
    call PtTebd makes is an order-sensitive linear map with symbolic entries that depends
    on exactly the arguments the real call receives:
      apply_nn_gate_layer(layer)        v <- G[layer] v          (G keyed by the layer object)
      apply_process_tensors(step, pts)  v <- M[step-1] v
      apply_site_gate_layer(layer)      v <- C v                 (C = the control superoperator)
      compute_traces(step, pts)         selects the weight vector c[step]
      get_norm()                        c[step] . v
      get_density_matrix(sites)         (c[step] * v) reshaped 2x2
    get_gamma(0) exports v, the constructor imports it (AugmentedMPS round trip)."""
    model = None           # set by the harness: dict with G, M, c, propagator

    def __init__(self, gammas, lambdas, epsrel, config):
        self.v = np.array(gammas[0]).reshape(-1)
        self.n = len(gammas)
        self._rest = [np.array(g) for g in gammas[1:]]
        self._lams = [np.array(l) for l in lambdas]
        self.cap = None

    def get_gamma(self, i):
        if i == 0:
            return self.v.reshape(1, -1, 1, 1)
        return self._rest[i - 1]

    def get_lambda(self, i):
        return self._lams[i]

    def get_bond_dimensions(self):
        return np.array([1] * (self.n - 1))

    def apply_nn_gate_layer(self, layer):
        self.v = self.model["G"][id(layer)] @ self.v

    def apply_process_tensors(self, step, process_tensors):
        self.v = self.model["M"][step - 1] @ self.v

    def apply_site_gate_layer(self, layer):
        for g in layer.gates:
            assert g.sites == [0]
            self.v = g.tensors[0] @ self.v

    def compute_traces(self, step, process_tensors):
        self.cap = self.model["c"][step]

    def clear_traces(self):
        self.cap = None

    def get_norm(self):
        return self.cap @ self.v

    def get_density_matrix(self, sites):
        return (self.cap * self.v).reshape(2, 2)


def linear_model(inp, N, nlayers=2):
    """symbolic model for LinearBackend: nlayers gate layers, N process-tensor slices, N+1 caps"""
    from oqupy.mps_mpo import GateLayer, TebdPropagator
    layers = [GateLayer(parallel=True, gates=[]) for _ in range(nlayers)]
    model = {"G": {id(l): inp.arr("G%d" % i, (4, 4)) for i, l in enumerate(layers)},
             "M": [inp.arr("M%d" % k, (4, 4)) for k in range(N)],
             "c": [inp.arr("c%d" % k, (4,)) for k in range(N + 1)],
             "propagator": TebdPropagator(gate_layers=layers), "layers": layers}
    return model


def _stub_compute_tebd_propagator(system_chain, time_step, epsrel, order):
    return LinearBackend.model["propagator"]


LINEAR_STUBS = {"oqupy.pt_tebd.PtTebdBackend": LinearBackend,
                "oqupy.pt_tebd.compute_tebd_propagator": _stub_compute_tebd_propagator}


def make_pt_tebd(v0, start_time, start_step, dt, controls=(), mps=None):
    """real oqupy.PtTebd (constructor included) on a 2-site chain; controls: (matrix, step, post)
    on site 0"""
    from oqupy.mps_mpo import AugmentedMPS
    from oqupy.control import ChainControl
    from oqupy.pt_tebd import PtTebd, PtTebdParameters
    chain = oqupy.SystemChain([2, 2])
    if mps is None:
        mps = AugmentedMPS([v0, np.array([1.0, 0.0, 0.0, 0.0])])
    cc = ChainControl([2, 2])
    for mat, step, post in controls:
        cc.add_single_site_control(mat, 0, step, post=post)
    return PtTebd(mps, chain, [None, None], PtTebdParameters(dt=dt, epsrel=EPS_REAL, order=1), chain_control=cc,
                  start_time=start_time, start_step=start_step, dynamics_sites=[0])


def tebd_lists(res):
    """(times, norms, states of site 0) of PtTebd.get_results() as python lists"""
    d = res["dynamics"][0]
    return list(res["time"]), list(res["norm"]), list(d._times), list(d._states)


# --------------------------------------------------------------------------
# PT-TEBD on the real back-end: deterministic contraction order
# --------------------------------------------------------------------------
class _Contractors:
    @staticmethod
    def optimal(nodes, output_edge_order=None, **kw):
        """stand-in for tensornetwork.contractors.optimal with its documented contract (the
        full contraction of `nodes`, legs in `output_edge_order`); the pairwise order is the
        list order instead of a cost-optimal one, which depends on set iteration order and
        would make two runs of the same computation differ syntactically."""
        import tensornetwork as tn
        res = nodes[0]
        for n in nodes[1:]:
            res = tn.contract_between(res, n, allow_outer_product=True)
        if output_edge_order is not None:
            res.reorder_edges(list(output_edge_order))
        return res


class TnProxy:
    """module-global `tn` of oqupy.backends.pt_tebd_backend: tensornetwork, except contractors.optimal"""
    contractors = _Contractors

    def __getattr__(self, name):
        import tensornetwork as tn
        return getattr(tn, name)


def complex_any(x, *a):
    if isinstance(x, np.ndarray):
        x = x.item()
    return env.sym_complex(x, *a)


def any_bool(x, *a, **kw):
    """np.any returning a numpy bool also for object arrays (so that `~np.any(...)` works)"""
    x = np.asarray(x)
    if x.dtype != object:
        return np.any(x, *a, **kw)
    return np.bool_(any(bool(v) for v in x.flat))


def tebd_real_env(N):
    extra = {"oqupy.backends.pt_tebd_backend.tn": TnProxy(),
             "oqupy.backends.pt_tebd_backend.np": env.NpProxy({"any": any_bool}),
             "oqupy.backends.pt_tebd_backend.complex": complex_any}
    extra.update(step_shadows("oqupy.pt_tebd", -1, N + 1, ("isinstance",)))
    extra.update(step_shadows("oqupy.dynamics", -1, N + 1, ("float", "complex")))
    return {"noconj": True, "extra": extra}


def make_pt_tebd_real(mps, pts, propagator_holder, start_time, start_step, dt, controls=(), sites=2):
    """real oqupy.PtTebd on the REAL PtTebdBackend; `compute_tebd_propagator` (expm + SVD of the
    chain Liouvillians) is replaced by the harness's symbolic gate layers"""
    from oqupy.control import ChainControl
    from oqupy.pt_tebd import PtTebd, PtTebdParameters
    chain = oqupy.SystemChain([2] * sites)
    cc = ChainControl([2] * sites)
    for mat, site, step, post in controls:
        cc.add_single_site_control(mat, site, step, post=post)
    dyn_sites = list(range(sites)) + [tuple(range(sites))]
    return PtTebd(mps, chain, pts, PtTebdParameters(dt=dt, epsrel=EPS_REAL, order=1), chain_control=cc,
                  start_time=start_time, start_step=start_step, dynamics_sites=dyn_sites)


PROPAGATOR = {"p": None}


def _stub_propagator_real(system_chain, time_step, epsrel, order):
    return PROPAGATOR["p"]


TEBD_REAL_STUBS = {"oqupy.pt_tebd.compute_tebd_propagator": _stub_propagator_real}

# --------------------------------------------------------------------------
# instance search that respects integer side constraints
# --------------------------------------------------------------------------
def guided_search_int_aware(formula, side, rnd, timeout_s, attempts=12, keep=6):
    """core.guided_search (DESIGN 2.3) fixes all but a few variables to random small integers;
    with symbolic call histories the side conditions pin integer variables (targets, fault
    index, fresh truncation results) to path-specific values, which random integers almost
    never satisfy.  Here the Int variables are fixed from a model of the side conditions
    and only the Real variables are instantiated at random.  A model of an instance is a
    model of the query, and every model is replayed on the real code before it counts."""
    import time
    from . import core
    vs = [v for v in sym.free_vars(formula, *side) if not str(v).startswith("sqrt_")]
    ints = [v for v in vs if v.sort().kind() == z3.Z3_INT_SORT]
    reals = [v for v in vs if v.sort().kind() == z3.Z3_REAL_SORT]
    t0 = time.time()
    sub0, out0 = [], {}
    if ints:
        s0 = core._solver(10)
        s0.add(*side)
        if s0.check() != z3.sat:
            return None, time.time() - t0
        m0 = s0.model()
        for v in ints:
            val = m0.eval(v, model_completion=True)
            sub0.append((v, val))
            out0[str(v)] = Fraction(val.as_long())
    for a in range(attempts):
        if time.time() - t0 > timeout_s:
            break
        k = min(keep, len(reals))
        free = set(rnd.sample(range(len(reals)), k)) if reals else set()
        sub, out = list(sub0), dict(out0)
        for i, v in enumerate(reals):
            if i in free:
                continue
            val = rnd.randint(-3, 3)
            sub.append((v, z3.RealVal(val)))
            out[str(v)] = Fraction(val)
        g = z3.simplify(z3.substitute(z3.And(formula, *side), *sub)) if sub else z3.And(formula, *side)
        s = core._solver(max(2, timeout_s / attempts))
        s.add(g)
        if s.check() == z3.sat:
            m = s.model()
            for i in free:
                out[str(reals[i])] = sym.model_value(m, reals[i])
            return out, time.time() - t0
    return None, time.time() - t0


def install_int_aware_search():
    from . import core
    core.guided_search = guided_search_int_aware
