"""C14 building blocks (call histories on method objects).

* the API objects are built directly in the state `compute` starts from
  (`__new__` + exactly the attributes `compute`/`get_*` read), with the REAL back-ends
  of /repo on symbolic tensors, mirroring the `_prepare_backend` wiring;
* `FaultPlan`: transient failure of a user callable at a symbolic call index;
* `tight`/`step_shadows`: symbolic step counts with a solver-verified value range (so
  that `range(num_step)` enumerates a handful of values instead of -64..64);
* `LinearBackend`: stand-in for `PtTebdBackend` where only the step/time bookkeeping
  of `PtTebd` matters (every back-end call is a non-commuting symbolic linear map).
"""
from fractions import Fraction

import numpy as np
import z3

import oqupy
import oqupy.process_tensor as ptm
from oqupy.base_api import BaseAPIClass
from oqupy.tempo import Tempo, MeanFieldTempo, GibbsTempo, TempoParameters, GibbsParameters
from oqupy.pt_tempo import PtTempo
from oqupy.backends.tempo_backend import TempoBackend, MeanFieldTempoBackend, TIBaseBackend
from oqupy.backends.pt_tempo_backend import PtTempoBackend

from . import sym, env, lib
from .sym import S, SI, SB

EPS_REAL = lib.EPS_REAL


# --------------------------------------------------------------------------
# symbolic step counts
# --------------------------------------------------------------------------
def tight(x, lo, hi):
    """SI with the declared range [lo, hi]; the range is VERIFIED against the current
    path condition (one solver query), so concretisation inside it is exhaustive."""
    if not isinstance(x, SI):
        return x
    e = z3.simplify(x.e)
    if z3.is_int_value(e):
        return e.as_long()
    if sym.CTX is not None and sym._feasible(z3.Or(x.e < lo, x.e > hi)):
        raise sym.Inconclusive("declared range [%d,%d] does not cover %s" % (lo, hi, x.e))
    return SI(x.e, lo, hi)


def step_shadows(module, lo, hi, names=("int", "float", "max")):
    """module-global shadows for `int(...)`, `float(...)`, `max(...)` of a step computation"""
    def s_int(x, *a):
        return tight(env.sym_int(x, *a), lo, hi)

    def s_max(*a, **kw):
        return tight(env.sym_max(*a, **kw), lo, hi)
    table = {"int": s_int, "max": s_max, "float": env.sym_float, "complex": env.sym_complex,
             "isinstance": env.sym_isinstance}
    return {"%s.%s" % (module, n): table[n] for n in names}


def sym_maximum(vals):
    """max of ints / SI without forking (If-term)"""
    if not any(isinstance(v, SI) for v in vals):
        return max(vals)
    m = sym.toi(vals[0])
    for v in vals[1:]:
        v = sym.toi(v)
        m = z3.If(v > m, v, m)
    return SI(m, min(getattr(v, "lo", v) for v in vals), max(getattr(v, "hi", v) for v in vals))


def as_time(start, k, dt):
    """start + k*dt as the mode's scalar (S in sym mode, float otherwise)"""
    if isinstance(start, (SI, S)) or isinstance(k, (SI, S)):
        return S.of(start) + S.of(k) * dt
    return float(start) + float(k) * dt


# --------------------------------------------------------------------------
# fault injection
# --------------------------------------------------------------------------
class UserFault(Exception):
    """raised by the harness's user callable (Hamiltonian / field equation stand-in)"""


class FaultPlan:
    """Every evaluation of a user callable calls `tick`; the evaluation whose global
    index equals `fault` raises once (transient failure)."""

    def __init__(self, fault=None):
        self.fault = fault
        self.n = 0
        self.fired = None
        self.log = []

    def tick(self, what=""):
        i = self.n
        self.n += 1
        self.log.append(what)
        if self.fault is not None and self.fired is None and self.fault == i:
            self.fired = (i, what)
            raise UserFault("injected failure of user callable %r (call %d)" % (what, i))


# --------------------------------------------------------------------------
# Tempo / MeanFieldTempo on the real back-ends
# --------------------------------------------------------------------------
class _Params:
    """the attributes of TempoParameters that compute/_time/_get_num_step/_compute_field read"""

    def __init__(self, dt, dkmax):
        self.dt = dt
        self.dkmax = dkmax


def make_tempo(d, K, rho0, influence, P1, P2, start, dt, plan=None):
    """oqupy.Tempo as left by __init__/_prepare_backend: real TempoBackend, symbolic
    influences, propagator closure standing in for `system.get_propagators(...)`
    (evaluates the user's Hamiltonian <=> plan.tick)."""
    D = d * d
    t = Tempo.__new__(Tempo)
    BaseAPIClass.__init__(t, None, None)
    t._dimension = d
    t._start_time = start
    t._parameters = _Params(dt, K)
    t._dynamics = None

    def propagators(step):
        if plan is not None:
            plan.tick("hamiltonian(step %d)" % step)
        return P1[step], P2[step]
    t._backend_instance = TempoBackend(np.array(rho0).reshape(D), influence, np.identity(d), propagators,
                                       np.ones(D), np.ones(D), K, EPS_REAL, dim=d)
    return t


def make_mean_field_tempo(d, K, rho0, influence, A1, B1, A2, start, dt, field0, eom, plan=None):
    """oqupy.MeanFieldTempo (one system) as left by __init__/_prepare_backend: real
    MeanFieldTempoBackend wired to the REAL bound methods _compute_field /
    _compute_field_derivative; the propagators depend on the field:
    first half step  A1[k] + field * B1[k],  second half step A2[k]."""
    D = d * d
    t = MeanFieldTempo.__new__(MeanFieldTempo)
    BaseAPIClass.__init__(t, None, None)
    t._dynamics = None
    t._start_time = start
    t._parameters = _Params(dt, K)
    t._parsed_parameters_dict = {"hs_dim": [d]}

    def field_eom(tm, states, field):
        if plan is not None:
            plan.tick("field_eom")
        return eom(tm, states, field)

    class _MFS:
        pass
    mfs = _MFS()
    mfs.field_eom = field_eom
    t._mean_field_system = mfs

    def propagators(step, field, field_derivative):
        if plan is not None:
            plan.tick("hamiltonian(step %d)" % step)
        return A1[step] + field * B1[step], A2[step]
    t._backend_instance = MeanFieldTempoBackend(
        [np.array(rho0).reshape(d, d)], field0, [influence], [np.identity(d)], [propagators],
        t._compute_field, t._compute_field_derivative, [np.ones(D)], [np.ones(D)], K, EPS_REAL,
        config=None, degeneracy_maps_list=[None], dim_list=[d])
    return t


def dyn_lists(dyn):
    """(times, states) of a Dynamics as python lists (no dtype conversion)"""
    return list(dyn._times), list(dyn._states)


def mf_lists(dyn):
    return list(dyn._times), list(dyn._fields), list(dyn._system_dynamics[0]._states)


# --------------------------------------------------------------------------
# PtTempo / GibbsTempo
# --------------------------------------------------------------------------
def make_pt_tempo(d, N, K, influence, dt=0.1):
    """oqupy.PtTempo as left by __init__/_init_pt_tempo_backend (real PtTempoBackend,
    SimpleProcessTensor), symbolic influences."""
    D = d * d
    p = PtTempo.__new__(PtTempo)
    BaseAPIClass.__init__(p, None, None)
    p._dimension = d
    p._num_steps = N
    p._process_tensor = ptm.SimpleProcessTensor(hilbert_space_dimension=d, dt=dt)
    p._backend_instance = PtTempoBackend(d, influence, p._process_tensor, np.ones(D), np.ones(D), N,
                                         (K if K is not None else N), EPS_REAL, {})
    return p


def pt_tensors(pt):
    return [pt.get_mpo_tensor(k, transformed=False) for k in range(len(pt))]


def make_gibbs(d, n_steps, prop, coeffs, coupling_diag, dt=0.25):
    """oqupy.GibbsTempo as left by __init__/_prepare_backend: real TIBaseBackend with
    half-step propagator `prop`, coefficient function `coeffs(k)`, diagonal coupling."""
    g = GibbsTempo.__new__(GibbsTempo)
    BaseAPIClass.__init__(g, None, None)
    g._dimension = d
    g._parameters = GibbsParameters(n_steps, EPS_REAL)
    g._dt = dt
    g._dynamics = None
    cd = np.array(coupling_diag, dtype=float)
    operators = (-cd, cd, np.zeros((d,)))
    g._backend_instance = TIBaseBackend(d, EPS_REAL, prop, coeffs, operators, max_step=n_steps, config={})
    return g


def amax_concrete(a):
    """`numpy.amax` for the (concrete) singular values of the SVD stub; returns a float so
    that `singular_values / amax(...)` stays an ndarray operation (S.__rtruediv__ does not
    defer to ndarray)"""
    return max(float(S.of(x).re) for x in np.asarray(a, dtype=object).flat)


_EXP_SYMS = {}


def exp_as_symbols(x):
    """`exp` on symbolic arguments: one fresh real/complex symbol per syntactically distinct
    (simplified) argument, exp(0) = 1.  Weaker than congruence (semantically equal but
    syntactically different arguments get independent symbols), hence sound for `unsat`;
    a `sat` is replayed on the real code anyway."""
    def one(v):
        v = S.of(v)
        if v.is_concrete():
            return sym.sym_exp(v)
        a, b = z3.simplify(sym.zr(v.re)), z3.simplify(sym.zr(v.im))
        key = (a.sexpr(), b.sexpr())
        if key not in _EXP_SYMS:
            n = len(_EXP_SYMS)
            re = z3.Real("expsym%d_re" % n)
            im = Fraction(0) if sym._isz(v.im) else z3.Real("expsym%d_im" % n)
            _EXP_SYMS[key] = S(re, im)
        return _EXP_SYMS[key]
    if isinstance(x, np.ndarray):
        out = np.empty(x.shape, dtype=object)
        for idx in np.ndindex(*x.shape):
            out[idx] = one(x[idx])
        return out
    return one(x)


GIBBS_ENV = {"extra": {"oqupy.backends.tempo_backend.amax": amax_concrete,
                       "oqupy.backends.tempo_backend.exp": exp_as_symbols}}


# --------------------------------------------------------------------------
# PT-TEBD: linear stand-in back-end (step / time bookkeeping only)
# --------------------------------------------------------------------------
class LinearBackend:
    """Stand-in for PtTebdBackend.  The chain state is a vector v; every back-end call
    PtTebd makes is an (order-sensitive) linear map with symbolic entries that depends
    on exactly the arguments the real call receives:
      apply_nn_gate_layer(layer)        v <- G[layer] v
      apply_process_tensors(step, pts)  v <- M[step-1] v
      apply_site_gate_layer(layer)      v <- C[gate tensors] v
      compute_traces(step, pts)         selects cap c[step]
      get_norm()                        c[step] . v
      get_density_matrix(sites)         R[sites] (c[step] * v)   (2x2)
    gammas handed to the constructor: gammas[0] carries v (AugmentedMPS round trip)."""
    model = None           # set by the harness: dict with G, M, c, R

    def __init__(self, gammas, lambdas, epsrel, config):
        self.v = np.array(gammas[0]).reshape(-1)
        self.n = len(gammas)
        self._rest = [np.array(g) for g in gammas[1:]]
        self._lams = [np.array(l) for l in lambdas]
        self.cap = None
        self.ops = []

    # -- what PtTebd.get_augmented_mps reads
    def get_gamma(self, i):
        if i == 0:
            return self.v.reshape(1, -1, 1, 1)
        return self._rest[i - 1]

    def get_lambda(self, i):
        return self._lams[i]

    def get_bond_dimensions(self):
        return np.array([1] * (self.n - 1))

    def apply_nn_gate_layer(self, layer):
        self.v = self.model["G"][id(layer)] @ self.v
        self.ops.append("nn")

    def apply_process_tensors(self, step, process_tensors):
        self.v = self.model["M"][step - 1] @ self.v
        self.ops.append("pt%d" % (step - 1))

    def apply_site_gate_layer(self, layer):
        for g in layer.gates:
            self.v = g.tensors[0] @ self.v
        self.ops.append("ctrl")

    def compute_traces(self, step, process_tensors):
        self.cap = self.model["c"][step]

    def clear_traces(self):
        self.cap = None

    def get_norm(self):
        return (self.cap @ self.v)

    def get_density_matrix(self, sites):
        w = self.cap * self.v
        return (self.model["R"][tuple(sites)] @ w).reshape(2, 2)
