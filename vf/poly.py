"""Polynomial obligations: `got == exp` for arrays whose entries are polynomials in the symbols.

The difference of every entry is put into sum-of-monomials normal form by z3's own simplifier
(`simplify(som=True)` with the blow-up limit lifted, an equivalence-preserving rewrite); an identity
becomes the literal 0 and the query handed to the solver is trivial, a non-identity stays a non-zero
polynomial for which the solver finds a model quickly.  Used where the code under test and the oracle
contract in very different orders (PT-TEBD vs. per-site evolution) and nlsat does not finish on the
raw terms."""
from fractions import Fraction

import numpy as np
import z3

from .core import Ob
from .sym import S


def _norm_term(p):
    if isinstance(p, Fraction):
        return p
    q = z3.simplify(p, som=True, som_blowup=10 ** 9)
    if z3.is_rational_value(q):
        return Fraction(q.numerator_as_long(), q.denominator_as_long())
    if z3.is_int_value(q):
        return Fraction(q.as_long())
    return q


def norm_diff(got, exp):
    g = np.asarray(got, dtype=object)
    e = np.asarray(exp, dtype=object)
    if g.shape != e.shape:
        raise ValueError("shape mismatch %s vs %s" % (g.shape, e.shape))
    out = np.empty(g.shape, dtype=object)
    for idx in np.ndindex(*g.shape):
        d = S.of(g[idx]) - S.of(e[idx])
        out[idx] = S(_norm_term(d.re), _norm_term(d.im))
    return out


MAX_NORMALISE_CHARS = 400000


class PolyOb(Ob):
    """got - exp == 0, given as a list of real terms `terms` (each must be 0).

    Holds side: the query is the full disjunction `some term != 0` (literal `false` when every term
    normalised to 0).  Violation side (DESIGN 2.3, instance search): nlsat is erratic at producing a witness
    for `p != 0`, so a point is looked for by exact evaluation of the terms at small integer points; when
    one is found the query becomes `full AND variables == point` -- an instance of the full query,
    satisfiable by construction.  The point only involves variables that do not occur in the path
    condition / assumptions (checked), so pinning them cannot hide a violation, and `unsat` is never
    produced by an instance."""

    def __init__(self, label, got, exp, terms, concrete_bad, point, key=None):
        Ob.__init__(self, label, "eq", got=got, exp=exp, key=key)
        self.terms, self.concrete_bad, self.point = terms, concrete_bad, point

    def violation_formula(self):
        if self.concrete_bad:
            return z3.BoolVal(True)
        if not self.terms:
            return z3.BoolVal(False)
        full = z3.Or(*[t != 0 for t in self.terms])
        if self.point is not None:
            return z3.And(full, *[v == val for v, val in self.point])
        return full


def _diff_terms(g, e):
    terms, bad = [], False
    for idx in np.ndindex(*g.shape):
        d = S.of(g[idx]) - S.of(e[idx])
        for p in (d.re, d.im):
            if isinstance(p, Fraction):
                bad = bad or p != 0
            else:
                terms.append(p)
    return terms, bad


def _find_point(terms, side_formulas, seed=0, tries=2):
    """small integer point at which some term is non-zero (exact evaluation), or None"""
    import random
    from .sym import free_vars
    vs = free_vars(*terms)
    side_names = {str(v) for v in free_vars(*side_formulas)} if side_formulas else set()
    if any(str(v) in side_names or str(v).startswith(("sqrt_", "div!")) or v.sort().kind() != z3.Z3_REAL_SORT for v in vs):
        return None
    if any(t.decl().kind() == z3.Z3_OP_UNINTERPRETED and t.num_args() > 0 for t in terms):
        return None
    rnd = random.Random(seed)
    for k in range(tries):
        span = 3
        sub = [(v, z3.RealVal(rnd.choice([x for x in range(-span, span + 1) if x != 0]))) for v in vs]
        for t in terms:
            val = z3.simplify(z3.substitute(t, *sub))
            if z3.is_rational_value(val):
                if val.numerator_as_long() != 0:
                    used = {str(v) for v in free_vars(t)}
                    return [(v, x) for v, x in sub if str(v) in used]
            else:
                return None            # not a polynomial in plain variables: no instance search
    return None


def ob_eq_poly(inp, label, got, exp, key=None):
    """Ob for got == exp (arrays of polynomials in the symbols); see module docstring"""
    if inp.mode != "sym":
        return Ob.eq(label, got, exp, key=key)
    from . import sym as _sym
    g = np.asarray(got, dtype=object)
    e = np.asarray(exp, dtype=object)
    if g.shape != e.shape:
        return Ob.holds(label + " (shape)", False, key=key)
    # 1. syntactically identical terms (what the framework's own simplification sees)
    raw = z3.simplify(_sym.neq_any(g, e))
    if z3.is_false(raw):
        return Ob.eq(label, got, exp, key=key)
    side = list(_sym.CTX.pc) if _sym.CTX is not None else []
    side += list(inp.assumptions)
    # 2. violation side: a point where the raw difference is non-zero
    terms, bad = _diff_terms(g, e)
    if bad:
        return PolyOb(label, got, exp, terms, True, None, key=key)
    point = _find_point(terms, side)
    if point is not None:
        return PolyOb(label, got, exp, terms, False, point, key=key)
    # 3. holds side: normal form (identity -> literal 0); too large -> left to the solver as it is
    if len(raw.sexpr()) > MAX_NORMALISE_CHARS:
        return Ob.eq(label, got, exp, key=key)
    nterms, nbad = _diff_terms(norm_diff(g, e), np.vectorize(lambda x: S(0), otypes=[object])(g))
    return PolyOb(label, got, exp, nterms, nbad, None, key=key)


class EitherOb(Ob):
    """got equals ONE of several alternatives.  Violation formula: for every alternative some entry differs.
    Same instance search as PolyOb: a point (exact evaluation) at which got differs from every alternative."""

    def __init__(self, label, got, alts, term_lists, point, key=None):
        Ob.__init__(self, label, "holds", cond=None, key=key)
        self.got, self.alts, self.term_lists, self.point = got, alts, term_lists, point

    def violation_formula(self):
        parts = []
        for terms, bad in self.term_lists:
            if bad:
                continue                       # concretely different from this alternative
            if not terms:
                return z3.BoolVal(False)       # literally equal to this alternative
            parts.append(z3.Or(*[t != 0 for t in terms]))
        full = z3.And(*parts) if parts else z3.BoolVal(True)
        if self.point is not None:
            return z3.And(full, *[v == val for v, val in self.point])
        return full

    def violated_concrete(self, tol):
        return Ob.violated_concrete(self, tol)


def either_of_poly(inp, label, got, alts, key=None):
    """Ob: got == one of alts (arrays of polynomials)"""
    if inp.mode != "sym":
        from .core import _as_complex
        g = _as_complex(got)
        ok = any(g.shape == _as_complex(a).shape and
                 float(np.max(np.abs(g - _as_complex(a)))) <= 1e-7 * (1 + float(np.max(np.abs(_as_complex(a))))) for a in alts)
        return Ob.holds(label, ok, key=key)
    from . import sym as _sym
    from .sym import free_vars
    g = np.asarray(got, dtype=object)
    term_lists = []
    for a in alts:
        e = np.asarray(a, dtype=object)
        if g.shape != e.shape:
            term_lists.append(([], True))
            continue
        raw = z3.simplify(_sym.neq_any(g, e))
        if z3.is_false(raw):
            return Ob.holds(label, True, key=key)
        terms, bad = _diff_terms(norm_diff(g, e), np.vectorize(lambda x: S(0), otypes=[object])(g))
        if not terms and not bad:
            return Ob.holds(label, True, key=key)
        term_lists.append((terms, bad))
    # instance: a point where, for every alternative, some term is non-zero
    side = list(_sym.CTX.pc) if _sym.CTX is not None else []
    side += list(inp.assumptions)
    allterms = [t for terms, bad in term_lists for t in terms]
    point = None
    vs = free_vars(*allterms) if allterms else []
    side_names = {str(v) for v in free_vars(*side)} if side else set()
    if allterms and not any(str(v) in side_names or str(v).startswith(("sqrt_", "div!")) or v.sort().kind() != z3.Z3_REAL_SORT for v in vs):
        import random
        rnd = random.Random(0)
        for _ in range(6):
            sub = [(v, z3.RealVal(rnd.choice([-3, -2, -1, 1, 2, 3]))) for v in vs]
            ok = True
            for terms, bad in term_lists:
                if bad:
                    continue
                vals = [z3.simplify(z3.substitute(t, *sub)) for t in terms]
                if not all(z3.is_rational_value(v) for v in vals):
                    ok = None
                    break
                if all(v.numerator_as_long() == 0 for v in vals):
                    ok = False
                    break
            if ok is None:
                break
            if ok:
                point = sub
                break
    return EitherOb(label, got, alts, term_lists, point, key=key)
