"""Polynomial obligations: `got == exp` for arrays whose entries are polynomials in the symbols.

The difference of every entry is put into sum-of-monomials normal form by z3's own simplifier
(`simplify(som=True)` with the blow-up limit lifted, an equivalence-preserving rewrite); an identity
becomes the literal 0 and the query handed to the solver is trivial, a non-identity stays a non-zero
polynomial for which the solver finds a model quickly.  Used where the code under test and the oracle
contract in very different orders (PT-TEBD vs. per-site evolution) and nlsat does not finish on the
raw terms."""
from fractions import Fraction

import numpy as np
import z3

from .core import Ob
from .sym import S


def _norm_term(p):
    if isinstance(p, Fraction):
        return p
    q = z3.simplify(p, som=True, som_blowup=10 ** 9)
    if z3.is_rational_value(q):
        return Fraction(q.numerator_as_long(), q.denominator_as_long())
    if z3.is_int_value(q):
        return Fraction(q.as_long())
    return q


def norm_diff(got, exp):
    g = np.asarray(got, dtype=object)
    e = np.asarray(exp, dtype=object)
    if g.shape != e.shape:
        raise ValueError("shape mismatch %s vs %s" % (g.shape, e.shape))
    out = np.empty(g.shape, dtype=object)
    for idx in np.ndindex(*g.shape):
        d = S.of(g[idx]) - S.of(e[idx])
        out[idx] = S(_norm_term(d.re), _norm_term(d.im))
    return out


MAX_NORMALISE_CHARS = 400000


class PolyOb(Ob):
    """got - exp == 0 with the difference already in normal form.

    Holds side: the query is the full disjunction `some entry != 0` (literal `false` when every entry
    normalised to 0).  Violation side (DESIGN 2.3, instance search): a non-zero normal form is a non-zero
    polynomial, but nlsat is erratic at producing a witness for `p != 0`; so a point is looked for by exact
    evaluation of one non-zero entry at small integer points, and when one is found the query becomes
    `full AND variables == point` -- an instance of the full query, satisfiable by construction.  The point
    only involves variables that do not occur in the path condition / assumptions (checked), so pinning
    them cannot hide a violation, and `unsat` is never produced by an instance."""

    def __init__(self, label, diff, key=None, side_formulas=(), seed=0):
        Ob.__init__(self, label, "eq", got=diff, exp=None, key=key)
        self.terms = []
        self.concrete_bad = False
        for idx in np.ndindex(*diff.shape):
            v = diff[idx]
            for p in (v.re, v.im):
                if isinstance(p, Fraction):
                    if p != 0:
                        self.concrete_bad = True
                else:
                    self.terms.append(p)
        self.exp = np.empty(diff.shape, dtype=object)
        for idx in np.ndindex(*diff.shape):
            self.exp[idx] = S(0)
        self.point = None
        if self.terms and not self.concrete_bad:
            self.point = _find_point(self.terms, side_formulas, seed)

    def violation_formula(self):
        if self.concrete_bad:
            return z3.BoolVal(True)
        if not self.terms:
            return z3.BoolVal(False)
        full = z3.Or(*[t != 0 for t in self.terms])
        if self.point is not None:
            return z3.And(full, *[v == val for v, val in self.point])
        return full


def _find_point(terms, side_formulas, seed, tries=40):
    import random
    from .sym import free_vars
    term = min(terms, key=lambda t: len(t.sexpr()))
    vs = free_vars(term)
    side_names = {str(v) for v in free_vars(*side_formulas)} if side_formulas else set()
    if any(str(v) in side_names or str(v).startswith("sqrt_") or v.sort().kind() != z3.Z3_REAL_SORT for v in vs):
        return None
    rnd = random.Random(seed)
    for k in range(tries):
        span = 2 if k < 10 else 5
        sub = [(v, z3.RealVal(rnd.choice([x for x in range(-span, span + 1) if x != 0]))) for v in vs]
        val = z3.simplify(z3.substitute(term, *sub))
        if z3.is_rational_value(val) and val.numerator_as_long() != 0:
            return sub
    return None


def ob_eq_poly(inp, label, got, exp, key=None):
    """Ob for got == exp; symbolic mode: normalised difference == 0"""
    if inp.mode != "sym":
        return Ob.eq(label, got, exp, key=key)
    from . import sym as _sym
    g = np.asarray(got, dtype=object)
    e = np.asarray(exp, dtype=object)
    if g.shape != e.shape:
        return Ob.holds(label + " (shape)", False, key=key)
    # cheap first: syntactically identical terms (what the framework's own simplification sees)
    raw = z3.simplify(_sym.neq_any(g, e))
    if z3.is_false(raw):
        return Ob.eq(label, got, exp, key=key)
    if len(raw.sexpr()) > MAX_NORMALISE_CHARS:
        return Ob.eq(label, got, exp, key=key)          # too large to expand: left to the solver as it is
    side = list(_sym.CTX.pc) if _sym.CTX is not None else []
    side += list(inp.assumptions)
    return PolyOb(label, norm_diff(g, e), key=key, side_formulas=side)
