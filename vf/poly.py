"""Polynomial obligations: `got == exp` for arrays whose entries are polynomials in the symbols.

The difference of every entry is put into sum-of-monomials normal form by z3's own simplifier
(`simplify(som=True)` with the blow-up limit lifted, an equivalence-preserving rewrite); an identity
becomes the literal 0 and the query handed to the solver is trivial, a non-identity stays a non-zero
polynomial for which the solver finds a model quickly.  Used where the code under test and the oracle
contract in very different orders (PT-TEBD vs. per-site evolution) and nlsat does not finish on the
raw terms."""
from fractions import Fraction

import numpy as np
import z3

from .core import Ob
from .sym import S


def _norm_term(p):
    if isinstance(p, Fraction):
        return p
    q = z3.simplify(p, som=True, som_blowup=10 ** 9)
    if z3.is_rational_value(q):
        return Fraction(q.numerator_as_long(), q.denominator_as_long())
    if z3.is_int_value(q):
        return Fraction(q.as_long())
    return q


def norm_diff(got, exp):
    g = np.asarray(got, dtype=object)
    e = np.asarray(exp, dtype=object)
    if g.shape != e.shape:
        raise ValueError("shape mismatch %s vs %s" % (g.shape, e.shape))
    out = np.empty(g.shape, dtype=object)
    for idx in np.ndindex(*g.shape):
        d = S.of(g[idx]) - S.of(e[idx])
        out[idx] = S(_norm_term(d.re), _norm_term(d.im))
    return out


def ob_eq_poly(inp, label, got, exp, key=None):
    """Ob for got == exp; symbolic mode: normalised difference == 0"""
    if inp.mode != "sym":
        return Ob.eq(label, got, exp, key=key)
    g = np.asarray(got, dtype=object)
    e = np.asarray(exp, dtype=object)
    if g.shape != e.shape:
        return Ob.holds(label + " (shape)", False, key=key)
    d = norm_diff(g, e)
    zero = np.empty(d.shape, dtype=object)
    for idx in np.ndindex(*d.shape):
        zero[idx] = S(0)
    return Ob.eq(label, d, zero, key=key)
