"""Harness framework: inputs in three modes, obligations, solver queries, guided
instance search, replay on the real code, evidence, known findings, parallel runner."""
import hashlib
import inspect
import json
import multiprocessing as mp
import os
import random
import sys
import time
import traceback
from fractions import Fraction

import numpy as np
import z3

from . import sym
from .sym import S, SI, SB, Abort, Inconclusive

ROOT = os.path.dirname(os.path.dirname(os.path.abspath(__file__)))
REPO = os.environ.get("VF_REPO", "/repo").rstrip("/")


# --------------------------------------------------------------------------
# inputs
# --------------------------------------------------------------------------
class Inputs:
    """Source of harness inputs.
    mode 'sym'  : fresh z3 constants (S / SI in object arrays)
    mode 'frac' : seeded random rationals wrapped in S (stubs on, exact arithmetic)
    mode 'real' : the same values as python floats / complex ndarrays (real stack)
    `values` maps the z3 constant name to a number (shared random point or solver model)."""

    def __init__(self, mode, seed=0, values=None):
        self.mode = mode
        self.values = dict(values) if values else {}
        self.rnd = random.Random(seed)
        self.decl = {}
        self.scale = 1
        self.assumptions = _PcList()

    # -- scalars -----------------------------------------------------------
    def _num(self, name, lo, hi, integer=False, nonzero=False):
        if name in self.values:
            return self.values[name]
        for _ in range(100):
            if integer:
                v = Fraction(self.rnd.randint(lo if lo is not None else -3, hi if hi is not None else 3))
            else:
                # well-conditioned: |v| <= 1 (keeps real-stack validation far from rounding noise)
                v = Fraction(self.rnd.randint(-8, 8), 8) * Fraction(self.scale)
                if lo is not None and v < lo or hi is not None and v > hi:
                    a = Fraction(lo if lo is not None else (hi - 4))
                    b = Fraction(hi if hi is not None else (lo + 4))
                    v = a + (b - a) * Fraction(self.rnd.randint(1, 15), 16)
            if nonzero and v == 0:
                continue
            break
        self.values[name] = v
        return v

    def real(self, name, lo=None, hi=None, nonzero=False):
        n = name + "r"
        self.decl[n] = ("real", lo, hi)
        if self.mode == "sym":
            v = z3.Real(n)
            if lo is not None:
                self.assumptions.append(v >= sym.zr(Fraction(lo)))
            if hi is not None:
                self.assumptions.append(v <= sym.zr(Fraction(hi)))
            if nonzero:
                self.assumptions.append(v != 0)
            return S(v)
        x = self._num(n, lo, hi, nonzero=nonzero)
        if self.mode == "frac":
            return S(Fraction(x) if not isinstance(x, float) else Fraction(x))
        return float(x)

    def cplx(self, name):
        re = self.real(name)
        self.decl[name + "i"] = ("real", None, None)
        if self.mode == "sym":
            return S(re.re, z3.Real(name + "i"))
        im = self._num(name + "i", None, None)
        if self.mode == "frac":
            return S(re.re, Fraction(im))
        return complex(re, float(im))

    def int(self, name, lo, hi):
        self.decl[name] = ("int", lo, hi)
        if self.mode == "sym":
            v = z3.Int(name)
            self.assumptions.append(z3.And(v >= lo, v <= hi))
            return SI(v, lo, hi)
        return int(self._num(name, lo, hi, integer=True))

    def bool(self, name):
        self.decl[name] = ("bool", None, None)
        if self.mode == "sym":
            return SB(z3.Bool(name))
        if name in self.values:
            return bool(self.values[name])
        v = bool(self.rnd.randint(0, 1))
        self.values[name] = v
        return v

    # -- arrays ------------------------------------------------------------
    def arr(self, name, shape, cplx=False):
        shape = tuple(int(s) for s in shape)
        if self.mode == "real":
            out = np.zeros(shape, dtype=complex)
        else:
            out = np.empty(shape, dtype=object)
        for idx in np.ndindex(*shape):
            n = name + "_" + "_".join(map(str, idx))
            out[idx] = self.cplx(n) if cplx else self.real(n)
        return out

    def const(self, arr):
        """concrete numeric array in the representation of the current mode"""
        if self.mode == "real":
            return np.array(arr, dtype=complex)
        return sym.lift(np.asarray(arr))

    def one(self):
        return 1.0 if self.mode == "real" else S(1)

    def zero(self):
        return 0.0 if self.mode == "real" else S(0)

    def assume(self, cond):
        """precondition of the harness (placed before the code it constrains)"""
        if self.mode == "sym":
            self.assumptions.append(sym.tob(cond))
        else:
            if not bool(cond):
                raise PreconditionFailed()

    @property
    def symbolic(self):
        return self.mode == "sym"


class _PcList(list):
    """assumptions are also pushed onto the live path condition so that branch
    feasibility and concretisation respect them"""

    def append(self, f):
        list.append(self, f)
        if sym.CTX is not None:
            sym.CTX.pc.append(f)


class PreconditionFailed(Exception):
    pass


# --------------------------------------------------------------------------
# obligations
# --------------------------------------------------------------------------
class Ob:
    """One assertion.  kind 'eq': got == expected (arrays/scalars); kind 'holds': cond."""

    def __init__(self, label, kind, got=None, exp=None, cond=None, key=None, info=None):
        self.label = label
        self.kind = kind
        self.got = got
        self.exp = exp
        self.cond = cond
        self.key = key or label
        self.info = info

    @staticmethod
    def eq(label, got, exp, key=None, info=None):
        return Ob(label, "eq", got=got, exp=exp, key=key, info=info)

    @staticmethod
    def holds(label, cond, key=None, info=None):
        return Ob(label, "holds", cond=cond, key=key, info=info)

    # symbolic: formula that is satisfiable iff the obligation can be violated
    def violation_formula(self):
        if self.kind == "eq":
            g = _as_obj(self.got)
            e = _as_obj(self.exp)
            if g.shape != e.shape:
                return z3.BoolVal(True)
            return sym.neq_any(g, e)
        return z3.Not(sym.tob(self.cond))

    # concrete: (violated?, magnitude)
    def violated_concrete(self, tol):
        if self.kind == "eq":
            g = _as_complex(self.got)
            e = _as_complex(self.exp)
            if g.shape != e.shape:
                return True, float("inf")
            if g.size == 0:
                return False, 0.0
            # NaN pattern must agree exactly
            gn, en = np.isnan(g), np.isnan(e)
            if (gn != en).any():
                return True, float("inf")
            m = ~gn
            if not m.any():
                return False, 0.0
            err = float(np.max(np.abs(g[m] - e[m])))
            scale = 1.0 + float(np.max(np.abs(e[m])))
            return err > tol * scale, err / scale
        c = self.cond
        if isinstance(c, SB):
            c = bool(z3.is_true(z3.simplify(c.f)))
        return (not bool(c)), 0.0


def _as_obj(x):
    if isinstance(x, np.ndarray):
        return x.astype(object) if x.dtype != object else x
    if isinstance(x, (list, tuple)):
        a = np.empty(len(x), dtype=object)
        for i, v in enumerate(x):
            a[i] = v
        if len(x) and isinstance(x[0], np.ndarray):
            return np.array([_as_obj(v) for v in x], dtype=object)
        return a
    a = np.empty((), dtype=object)
    a[()] = x
    return a


def _as_complex(x):
    if isinstance(x, np.ndarray) and x.dtype != object:
        return x.astype(complex)
    x = _as_obj(x)
    out = np.zeros(x.shape, dtype=complex)
    for idx in np.ndindex(*x.shape):
        v = x[idx]
        if isinstance(v, S):
            out[idx] = complex(v)
        elif isinstance(v, SI):
            out[idx] = int(v)
        elif v is None:
            out[idx] = np.nan
        else:
            out[idx] = complex(v)
    return out


# --------------------------------------------------------------------------
# cases
# --------------------------------------------------------------------------
class Case:
    """One bounded harness instance.

    run(inp) executes the REAL OQuPy functions on inputs drawn from `inp` and
    returns a list of Ob.  It must be mode-agnostic."""
    id = "?"
    tiers = ("quick", "thorough")
    bounds = {}
    env = {}                 # kwargs for symbolic_env (np_proxy_modules, extra, noconj)
    real_env = {}            # module-global shadowing also needed in real mode
    timeout_s = 120
    first_timeout_s = 10        # short full query used for big formulas before the instance search
    presearch_attempts = 3      # quick instance search before the full query (0 = off)
    wall_limit_s = 900          # hard wall-clock limit of the whole case (worker is killed)
    tol = 1e-7
    stubs = ()
    assumptions = ()
    functions = ()           # documented list of /repo functions encoded
    max_paths = 2000
    validate = True          # run frac/real validation point
    cross_check = False      # also diff first query against cvc5

    def run(self, inp):
        raise NotImplementedError

    def describe(self):
        return {"case": self.id, "bounds": self.bounds}


def _trace_functions(fn):
    """run fn() recording which /repo functions were executed"""
    seen = set()
    prefix = REPO + "/oqupy"

    def prof(frame, event, arg):
        if event == "call":
            co = frame.f_code
            if co.co_filename.startswith(prefix):
                seen.add((co.co_filename[len(REPO) + 1:], co.co_qualname if hasattr(co, "co_qualname") else co.co_name))
    old = sys.getprofile()
    sys.setprofile(prof)
    try:
        out = fn()
    finally:
        sys.setprofile(old)
    return out, seen


def _solver(timeout_s):
    s = z3.Solver()
    s.set("timeout", int(timeout_s * 1000))
    return s


def check_formula(formula, side, timeout_s):
    """returns ('unsat'|'sat'|'unknown', model_or_None, seconds)"""
    s = _solver(timeout_s)
    s.add(*side)
    s.add(formula)
    t = time.time()
    r = s.check()
    dt = time.time() - t
    if r == z3.sat:
        return "sat", s.model(), dt
    if r == z3.unsat:
        return "unsat", None, dt
    return "unknown", None, dt


def guided_search(formula, side, rnd, timeout_s, attempts=12, keep=6):
    """2.3: look for a model of an instance (all but `keep` variables fixed to small
    integers).  A model of an instance is a model of the query."""
    vs = [v for v in sym.free_vars(formula, *side) if not str(v).startswith("sqrt_")
          and v.sort().kind() in (z3.Z3_REAL_SORT, z3.Z3_INT_SORT)]
    t0 = time.time()
    for a in range(attempts):
        if time.time() - t0 > timeout_s:
            break
        k = min(keep, len(vs))
        free = set(rnd.sample(range(len(vs)), k)) if vs else set()
        sub = []
        for i, v in enumerate(vs):
            if i in free:
                continue
            val = rnd.randint(-3, 3)
            sub.append((v, z3.RealVal(val) if v.sort().kind() == z3.Z3_REAL_SORT else z3.IntVal(val)))
        g = z3.simplify(z3.substitute(z3.And(formula, *side), *sub)) if sub else z3.And(formula, *side)
        s = _solver(max(2, timeout_s / attempts))
        s.add(g)
        r = s.check()
        if r == z3.sat:
            m = s.model()
            out = {}
            for v, val in sub:
                out[str(v)] = Fraction(val.as_long()) if z3.is_int_value(val) else Fraction(val.numerator_as_long(), val.denominator_as_long())
            for i in free:
                out[str(vs[i])] = sym.model_value(m, vs[i])
            # everything else still free in the instance (Bool flags in particular) comes from the model
            for k, v in model_to_values(m, sym.free_vars(g)).items():
                out.setdefault(k, v)
            return out, time.time() - t0
    return None, time.time() - t0


def model_to_values(model, formula_vars):
    out = {}
    for v in formula_vars:
        k = v.sort().kind()
        if k in (z3.Z3_REAL_SORT, z3.Z3_INT_SORT, z3.Z3_BOOL_SORT):
            try:
                out[str(v)] = sym.model_value(model, v)
            except Exception:
                pass
    return out


def _jsonable(v):
    if isinstance(v, Fraction):
        return {"frac": [v.numerator, v.denominator]} if v.denominator != 1 else int(v)
    if isinstance(v, (bool, int, float, str)) or v is None:
        return v
    if isinstance(v, (np.integer,)):
        return int(v)
    if isinstance(v, (np.floating,)):
        return float(v)
    if isinstance(v, complex):
        return {"complex": [v.real, v.imag]}
    return str(v)


def _unjson(v):
    if isinstance(v, dict) and "frac" in v:
        return Fraction(v["frac"][0], v["frac"][1])
    if isinstance(v, dict) and "complex" in v:
        return complex(*v["complex"])
    return v


def run_real(case, values, seed=0):
    """run the case on the untouched real stack with concrete values"""
    from .env import patched
    inp = Inputs("real", seed=seed, values=values)
    with patched(case.real_env):
        obs = case.run(inp)
    return inp, obs


def run_frac(case, values, seed=0):
    from .env import symbolic_env
    inp = Inputs("frac", seed=seed, values=values)
    old = sym.LIFT_FLOATS
    sym.LIFT_FLOATS = False          # everything stays concrete (no sqrt symbols)
    try:
        with symbolic_env(**case.env):
            res = sym.explore(lambda: case.run(inp), max_paths=4)
    finally:
        sym.LIFT_FLOATS = old
    return inp, res


def replay_values(case, values, tol=None):
    """-> list of (label, key, magnitude) violated on the real code"""
    tol = tol or case.tol
    try:
        inp, obs = run_real(case, values)
    except PreconditionFailed:
        return None
    except Exception as e:  # noqa
        tb = traceback.extract_tb(e.__traceback__)
        last_own = max([i for i, f in enumerate(tb) if f.filename.startswith(ROOT)] or [-1])
        last_repo = max([i for i, f in enumerate(tb) if f.filename.startswith(REPO + "/oqupy")] or [-1])
        if last_repo > last_own:
            return [("exception", "exception:%s" % type(e).__name__, float("inf"))]
        raise
    bad = []
    for ob in obs:
        v, mag = ob.violated_concrete(tol)
        if v:
            bad.append((ob.label, ob.key, mag))
    return bad


def _is_known(key, known):
    for kk in known:
        if key == kk or key.startswith(kk + "/") or (kk.endswith("*") and key.startswith(kk[:-1])):
            return kk
    return None


def execute_case(prop, case, tier, seed):
    """runs in a worker process; returns a picklable result dict"""
    known = [f["key"] for f in load_findings() if f["property"] == prop and f.get("status") == "known"]
    from .env import symbolic_env
    t0 = time.time()
    res = {"case": case.id, "bounds": case.bounds, "queries": [], "violations": [],
           "inconclusive": [], "errors": [], "paths": 0, "functions": [], "twins": [],
           "validated": 0, "solver_s": 0.0, "stubs": list(case.stubs),
           "assumptions": list(case.assumptions), "samples": []}
    rnd = random.Random(seed * 7919 + hash(case.id) % 1000)
    sym.reset_sqrt()
    try:
        holder = {}

        def once():
            inp = Inputs("sym")
            holder["inp"] = inp
            obs = case.run(inp)
            return inp, obs

        def sym_run():
            with symbolic_env(**case.env):
                return sym.explore(once, max_paths=case.max_paths)
        paths, fns = _trace_functions(sym_run)
        res["functions"] = sorted("%s:%s" % f for f in fns)
        res["paths"] = len(paths)
        if not paths:
            res["errors"].append("no feasible path (vacuous harness)")
        reach_ok = False
        for pi, (pc, (inp, obs)) in enumerate(paths):
            side = list(pc) + list(inp.assumptions) + sym.sqrt_axioms()
            # reachability twin: path condition + assumptions satisfiable
            r, m, dt = check_formula(z3.BoolVal(True), side, 30)
            res["solver_s"] += dt
            res["twins"].append({"path": pi, "twin": "assumptions+path satisfiable", "result": r})
            if r == "sat":
                reach_ok = True
            elif r == "unsat":
                continue
            for ob in obs:
                if any(not _is_known(v["key"], known) for v in res["violations"]):
                    break      # one new violation per case is enough (same root cause)
                f = ob.violation_formula()
                fs = z3.simplify(f)
                trivial = z3.is_false(fs)
                q = {"path": pi, "label": ob.label, "trivial": bool(trivial)}
                if trivial:
                    q.update(result="unsat", s=0.0, note="syntactically identical")
                    res["queries"].append(q)
                    continue
                q["hash"] = hashlib.sha1(fs.sexpr().encode()).hexdigest()[:12] if len(res["queries"]) < 400 else "-"
                # Strategy: (1) quick instance search (2.3) -- refuting a non-identity directly can
                # hang nlsat beyond its timeout, while an instance of a wrong identity is found in
                # milliseconds and an instance of a valid one simplifies to false; (2) full query
                # (only `unsat` of the FULL query is ever reported as "holds"); (3) longer instance
                # search if the full query is unknown.
                values, dt0 = (None, 0.0)
                small = _size_below(f, 60000)
                if case.presearch_attempts and small:
                    values, dt0 = guided_search(f, side, rnd, min(20, case.timeout_s), attempts=case.presearch_attempts)
                    res["solver_s"] += dt0
                if values is not None:
                    r, m, dt = "sat", None, dt0
                elif small:
                    r, m, dt = check_formula(f, side, case.timeout_s)
                else:
                    # big formula: substituting into it is itself expensive; short full query first
                    r, m, dt = check_formula(f, side, min(case.first_timeout_s, case.timeout_s))
                    if r == "unknown":
                        res["solver_s"] += dt
                        values, dt0 = guided_search(f, side, rnd, min(60, case.timeout_s), attempts=4)
                        if values is not None:
                            r, m, dt = "sat", None, dt0
                        else:
                            res["solver_s"] += dt0
                            r, m, dt = check_formula(f, side, case.timeout_s)
                if values is not None:
                    q["guided"] = "sat (pre-search)"
                else:
                    res["solver_s"] += dt
                    if r == "unknown":
                        values, dt2 = guided_search(f, side, rnd, min(40, case.timeout_s))
                        res["solver_s"] += dt2
                        q["guided"] = "sat" if values is not None else "none"
                        if values is not None:
                            r = "sat"
                        else:
                            res["inconclusive"].append({"label": ob.label, "path": pi, "why": "solver unknown, no instance model"})
                if r == "sat" and values is None:
                    values = model_to_values(m, sym.free_vars(f, *side))
                q.update(result=r, s=round(dt, 3))
                if values is not None:
                    for k, v in sym.sqrt_values().items():
                        values[k] = v
                    bad = replay_values(case, values)
                    jv = {k: _jsonable(v) for k, v in values.items()}
                    if bad:
                        lab = [b for b in bad if b[0] == ob.label] or bad
                        res["violations"].append({"label": lab[0][0], "key": "%s/%s/%s" % (prop, case.id, lab[0][1]),
                                                  "magnitude": lab[0][2], "values": jv, "found_by": "solver model, replayed on real code",
                                                  "info": ob.info})
                        q["replayed"] = True
                    elif bad is None:
                        res["inconclusive"].append({"label": ob.label, "path": pi, "why": "model violates harness precondition in real mode"})
                    else:
                        # exact-arithmetic counterexample that does not show in floating point:
                        # retry with the frac engine to see whether the symbolic model is self-consistent
                        res["inconclusive"].append({"label": ob.label, "path": pi, "why": "counterexample does not reproduce on real code", "values": jv})
                        q["replayed"] = False
                res["queries"].append(q)
                if len(res["samples"]) < 3:
                    res["samples"].append({"case": case.id, "obligation": ob.label, "path": pi, "verdict": q["result"],
                                           "formula_head": fs.sexpr()[:240]})
        if paths and not reach_ok:
            res["errors"].append("reachability twin failed: no path with satisfiable assumptions")
        # stub / oracle validation at a seeded random point (2.4)
        if case.validate and not res["errors"] and not res["violations"]:
            for vseed in (seed, seed + 1):
                try:
                    finp, fres = run_frac(case, None, seed=vseed)
                except PreconditionFailed:
                    continue
                values = dict(finp.values)
                for k, v in sym.sqrt_values().items():
                    values[k] = v
                try:
                    rinp, robs = run_real(case, values, seed=vseed)
                except PreconditionFailed:
                    continue
                fobs = fres[0][1] if fres else []
                flab = {o.label: o for o in fobs}
                for o in robs:
                    v, mag = o.violated_concrete(max(case.tol, 1e-6))
                    if v and mag < 1e-4:
                        res["inconclusive"].append({"label": o.label, "why": "real-stack validation differs by %.2g (between rounding noise and a gross mismatch)" % mag})
                        continue
                    fv = None
                    if o.label in flab:
                        fv, _ = flab[o.label].violated_concrete(1e-9)
                    if v and fv is False:
                        # real code disagrees with oracle where the stubbed engine agreed
                        res["violations"].append({"label": o.label, "key": "%s/%s/%s" % (prop, case.id, o.key), "magnitude": mag,
                                                  "values": {k: _jsonable(x) for k, x in values.items()},
                                                  "found_by": "stub-validation run on the real stack (concrete point), not the solver",
                                                  "info": o.info})
                    elif v and fv:
                        # both engines violate at this point although the solver said unsat -> harness bug
                        if not any(vv["label"] == o.label for vv in res["violations"]):
                            res["errors"].append("validation: obligation %s fails concretely (frac and real) but solver verdict differs" % o.label)
                    elif (not v) and fv:
                        res["errors"].append("validation: frac engine and real stack disagree on %s" % o.label)
                res["validated"] += 1
    except Inconclusive as e:
        res["inconclusive"].append({"label": "*", "why": str(e)})
    except Exception as e:  # noqa
        # An ordinary exception while the real code runs on valid (assumption-respecting)
        # inputs.  It is a violation only if the untouched real stack raises too, from a
        # frame inside the repository, on a concrete valid input; otherwise harness error.
        tb_s = traceback.format_exc()[-1500:]
        rep = _exception_replay(case, seed)
        if rep is not None:
            res["violations"].append({"label": "exception", "key": "%s/%s/exception:%s" % (prop, case.id, rep["type"]),
                                      "magnitude": float("inf"), "values": rep["values"],
                                      "found_by": "exception on valid input in the symbolic run, reproduced on the real stack",
                                      "info": rep["tb"]})
        else:
            res["errors"].append("%s: %s\n%s" % (type(e).__name__, e, tb_s))
    except BaseException as e:  # noqa
        res["errors"].append("%s: %s\n%s" % (type(e).__name__, e, traceback.format_exc()[-1500:]))
    res["wall_s"] = round(time.time() - t0, 2)
    return res


def _size_below(f, cap):
    """True if the DAG of f has fewer than `cap` nodes"""
    seen = set()
    stack = [f]
    while stack:
        x = stack.pop()
        i = x.get_id()
        if i in seen:
            continue
        seen.add(i)
        if len(seen) >= cap:
            return False
        stack.extend(x.children())
    return True


def _exception_replay(case, seed):
    for vseed in (seed, seed + 1, seed + 2):
        inp = Inputs("real", seed=vseed)
        try:
            from .env import patched
            with patched(case.real_env):
                case.run(inp)
            return None
        except PreconditionFailed:
            continue
        except Exception as e2:  # noqa
            tb = traceback.extract_tb(e2.__traceback__)
            inner_repo = [f for f in tb if f.filename.startswith(REPO + "/oqupy")]
            # innermost non-library frame must be repository code, not the harness
            own = [f for f in tb if f.filename.startswith(ROOT)]
            last_own = max([i for i, f in enumerate(tb) if f.filename.startswith(ROOT)] or [-1])
            last_repo = max([i for i, f in enumerate(tb) if f.filename.startswith(REPO + "/oqupy")] or [-1])
            if inner_repo and last_repo > last_own:
                return {"type": type(e2).__name__, "values": {k: _jsonable(v) for k, v in inp.values.items()},
                        "tb": "".join(traceback.format_list(tb[-4:]))[-800:] + "%s: %s" % (type(e2).__name__, e2)}
            return None
    return None


def _child(conn, a):
    try:
        conn.send(_worker(a))
    except BaseException as e:  # noqa
        conn.send({"case": "?", "bounds": {}, "queries": [], "violations": [], "inconclusive": [],
                   "errors": ["worker crashed: %r" % (e,)], "paths": 0, "functions": [], "twins": [], "validated": 0,
                   "solver_s": 0.0, "stubs": [], "assumptions": [], "samples": [], "wall_s": 0.0})
    finally:
        conn.close()


def _run_with_deadlines(args, jobs, case_objs):
    """one forked process per case, at most `jobs` at a time, each killed at its wall-clock limit
    (z3 does not always honour its own timeout); a killed case is inconclusive, never success"""
    ctx = mp.get_context("fork")
    pending = list(zip(args, case_objs))
    running = []
    results = []
    while pending or running:
        while pending and len(running) < jobs:
            a, c = pending.pop(0)
            pc, cc = ctx.Pipe(duplex=False)
            p = ctx.Process(target=_child, args=(cc, a))
            p.start()
            cc.close()
            running.append((p, pc, c, time.time()))
        still = []
        for p, pc, c, t0 in running:
            if pc.poll(0.05):
                try:
                    results.append(pc.recv())
                except EOFError:
                    results.append(_dead_result(c, "worker died without a result"))
                p.join(5)
            elif not p.is_alive():
                results.append(_dead_result(c, "worker died without a result (exit code %s)" % p.exitcode))
            elif time.time() - t0 > c.wall_limit_s:
                p.kill()
                p.join(5)
                results.append(_dead_result(c, "hard wall-clock limit of %d s exceeded (solver did not honour its timeout)" % c.wall_limit_s))
            else:
                still.append((p, pc, c, t0))
        running = still
    return results


def _dead_result(case, why):
    return {"case": case.id, "bounds": case.bounds, "queries": [], "violations": [], "inconclusive": [{"label": "*", "why": why}],
            "errors": [], "paths": 0, "functions": [], "twins": [], "validated": 0, "solver_s": 0.0, "stubs": list(case.stubs),
            "assumptions": list(case.assumptions), "samples": [], "wall_s": float(case.wall_limit_s)}


def _worker(args):
    modname, case_index, prop, tier, seed = args
    mod = __import__(modname, fromlist=["*"])
    cases = mod.cases(tier)
    case = cases[case_index]
    verbose = os.environ.get("VF_VERBOSE")
    if verbose:
        print("[start] %s" % case.id, file=sys.stderr, flush=True)
    r = execute_case(prop, case, tier, seed)
    if verbose:
        print("[done ] %s %.1fs solver=%.1fs q=%d viol=%d err=%d inc=%d" % (case.id, r["wall_s"], r["solver_s"], len(r["queries"]),
              len(r["violations"]), len(r["errors"]), len(r["inconclusive"])), file=sys.stderr, flush=True)
    return r


# --------------------------------------------------------------------------
# known findings
# --------------------------------------------------------------------------
def load_findings():
    out = []
    p = os.path.join(ROOT, "known_findings.json")
    if os.path.exists(p):
        out += json.load(open(p))["findings"]
    import glob
    for q in sorted(glob.glob(os.path.join(ROOT, "findings", "*.json"))):   # per-property staging files
        out += json.load(open(q))["findings"]
    return out


def source_hashes(functions):
    files = sorted({f.split(":")[0] for f in functions})
    out = {}
    for f in files:
        try:
            out[f] = hashlib.sha1(open(os.path.join(REPO, f), "rb").read()).hexdigest()[:12]
        except OSError:
            pass
    return out


# --------------------------------------------------------------------------
# runner
# --------------------------------------------------------------------------
def run_property(prop, modname, tier, seed, jobs=None, only=None, extra_results=None):
    t0 = time.time()
    mod = __import__(modname, fromlist=["*"])
    cases = mod.cases(tier)
    idx = [i for i, c in enumerate(cases) if only is None or any(o in c.id for o in only)]
    jobs = jobs or min(16, max(1, len(idx)))
    args = [(modname, i, prop, tier, seed) for i in idx]
    results = []
    if jobs == 1 or len(idx) <= 1:
        for a in args:
            results.append(_worker(a))
    else:
        results = _run_with_deadlines(args, jobs, [cases[i] for i in idx])
    results.sort(key=lambda r: r["case"])
    if extra_results:
        results.extend(extra_results)
    return finish(prop, mod, tier, seed, results, time.time() - t0)


def finish(prop, mod, tier, seed, results, wall):
    findings = [f for f in load_findings() if f["property"] == prop]
    known = {f["key"]: f for f in findings if f.get("status") == "known"}
    viol_new, viol_known = [], {}
    for r in results:
        for v in r["violations"]:
            k = v["key"]
            hit = _is_known(k, known)
            if hit:
                viol_known.setdefault(hit, []).append(v)
            else:
                viol_new.append((r["case"], v))
    errors = [(r["case"], e) for r in results for e in r["errors"]]
    inconc = [(r["case"], e) for r in results for e in r["inconclusive"]]
    nq = sum(len(r["queries"]) for r in results)
    by = {"unsat": 0, "sat": 0, "unknown": 0}
    hashes = set()
    nontriv = 0
    for r in results:
        for q in r["queries"]:
            by[q["result"]] = by.get(q["result"], 0) + 1
            if not q.get("trivial"):
                h = q.get("hash", "-")
                if h == "-" or h not in hashes:
                    nontriv += 1
                hashes.add(h)
    functions = sorted({f for r in results for f in r["functions"]})
    samples = [s for r in results for s in r["samples"]][:8]
    if not samples:
        samples = [{"case": r["case"], "bounds": r["bounds"]} for r in results][:4]
    os.makedirs(os.path.join(ROOT, "replays"), exist_ok=True)
    lines = []
    for kk, vs in viol_known.items():
        lines.append("KNOWN-FINDING: property=%s %s -- %s" % (prop, kk, known[kk]["what"]))
    # a listed finding that no longer shows is simply not printed (e.g. after a fix)
    rc = 0
    for case_id, v in viol_new:
        path = os.path.join(ROOT, "replays", "%s_%s.json" % (prop, hashlib.sha1((v["key"] + json.dumps(v["values"], sort_keys=True, default=str)).encode()).hexdigest()[:10]))
        json.dump({"property": prop, "module": mod.__name__, "case": case_id, "tier": tier, "key": v["key"], "label": v["label"],
                   "values": v["values"], "magnitude": v["magnitude"], "found_by": v["found_by"], "info": v.get("info")},
                  open(path, "w"), indent=1, default=str)
        lines.append("VIOLATION property=%s replay=%s" % (prop, path))
        lines.append("  case=%s obligation=%s key=%s found_by=%s" % (case_id, v["label"], v["key"], v["found_by"]))
        rc = 1
    if rc == 0 and (errors or inconc):
        rc = 2
    for c, e in errors:
        lines.append("HARNESS-ERROR case=%s %s" % (c, e))
    for c, e in inconc:
        lines.append("INCONCLUSIVE case=%s %s" % (c, json.dumps(e, default=str)[:600]))
    ev = {
        "property_id": prop, "tier": tier, "seed": int(seed), "level": "model_checking",
        "coverage": {
            "evaluations": max(1, nq),
            "distinct_nontrivial": nontriv,
            "rule": "one evaluation = one SMT query (negated obligation AND path condition AND assumptions) discharged by z3 "
                    "over ALL values of the symbolic inputs of one bounded harness case; distinct = distinct simplified formula "
                    "(sha1 of sexpr); non-trivial = not syntactically false after simplification",
            "samples": samples,
            "queries_by_verdict": by,
            "cases": [{"case": r["case"], "bounds": r["bounds"], "paths": r["paths"], "queries": len(r["queries"]),
                       "solver_s": round(r["solver_s"], 2), "wall_s": r.get("wall_s"), "twins": r["twins"][:4],
                       "validated_points": r["validated"]} for r in results],
            "paths": sum(r["paths"] for r in results),
            "functions_encoded": functions,
            "source_sha1": source_hashes(functions),
            "stubs": sorted({s for r in results for s in r["stubs"]}),
            "solver": "z3 " + z3.get_version_string(),
            "solver_s": round(sum(r["solver_s"] for r in results), 2),
            "traces_validated_against_impl": sum(r["validated"] for r in results) + sum(1 for r in results for q in r["queries"] if q.get("replayed")),
            "known_findings_reproduced": sorted(viol_known),
            "inconclusive": len(inconc), "harness_errors": len(errors),
            "exhaustive": False,
        },
        "assumptions": sorted({a for r in results for a in r["assumptions"]}) + list(getattr(mod, "ASSUMPTIONS", [])),
        "wall_s": round(wall, 2),
        "violations": len(viol_new),
    }
    os.makedirs(os.path.join(ROOT, "evidence"), exist_ok=True)
    json.dump(ev, open(os.path.join(ROOT, "evidence", prop + ".json"), "w"), indent=1, default=str)
    for l in lines:
        print(l)
    print("%s tier=%s cases=%d queries=%d %s paths=%d solver=%.1fs wall=%.1fs rc=%d" % (
        prop, tier, len(results), nq, by, ev["coverage"]["paths"], ev["coverage"]["solver_s"], wall, rc))
    return rc


def replay_file(path):
    d = json.load(open(path))
    mod = __import__(d["module"], fromlist=["*"])
    cases = [c for c in mod.cases(d.get("tier", "thorough")) if c.id == d["case"]]
    if not cases:
        cases = [c for c in mod.cases("thorough") if c.id == d["case"]]
    case = cases[0]
    values = {k: _unjson(v) for k, v in d["values"].items()}
    bad = replay_values(case, values)
    if bad:
        for b in bad:
            print("REPRODUCED property=%s case=%s obligation=%s magnitude=%.3g" % (d["property"], d["case"], b[0], b[2]))
        return 1
    print("not reproduced")
    return 0
