"""E1 core: symbolic scalars usable inside numpy object arrays + concolic path driver.

Scalars
  S   complex scalar = pair of real terms; a real term is a Fraction (concrete
      fast path, keeps 0/1 sparsity) or a z3 ArithRef (Real sort).
  SI  symbolic integer (z3 Int)      SB  symbolic boolean (z3 Bool)

Branching on a non-constant SB forks the path (decision log, DFS re-execution,
see `explore`).  Contexts that need a concrete Python int enumerate all
feasible values inside the declared bound.
"""
from fractions import Fraction
import numbers
import numpy as np
import z3


# --------------------------------------------------------------------------
# path driver
# --------------------------------------------------------------------------
class Abort(BaseException):
    """Current path infeasible (BaseException: must not be swallowed by the
    `except Exception` clauses of the code under analysis)."""


class Inconclusive(BaseException):
    """Solver returned unknown / budget exceeded: never reported as success."""


class SymbolicBranch(BaseException):
    """A symbolic value was branched on outside `explore`."""


class Ctx:
    def __init__(self, decisions=None, timeout_ms=20000):
        self.solver = z3.Solver()
        self.solver.set("timeout", timeout_ms)
        self.decisions = decisions if decisions is not None else []
        self.pos = 0
        self.pc = []
        self.nqueries = 0
        self.solver_s = 0.0


CTX = None
STATS = {"branch_queries": 0, "branch_s": 0.0, "paths": 0, "aborted_paths": 0}


def assume(f):
    """add a z3 Bool (or SB) to the current path condition"""
    if CTX is None:
        raise SymbolicBranch("assume outside explore")
    CTX.pc.append(tob(f))


def _feasible(f):
    import time
    c = CTX
    c.solver.push()
    c.solver.add(*c.pc)
    c.solver.add(*sqrt_axioms())      # defining axioms of sqrt constants / quotient variables
    c.solver.add(f)
    t = time.time()
    r = c.solver.check()
    STATS["branch_queries"] += 1
    STATS["branch_s"] += time.time() - t
    c.solver.pop()
    if r == z3.sat:
        return True
    if r == z3.unsat:
        return False
    raise Inconclusive("branch feasibility unknown: %s" % c.solver.reason_unknown())


def decide(alts):
    """alts: list of (z3 formula, python value).  Chooses the next feasible
    alternative according to the decision log (DFS)."""
    c = CTX
    if c is None:
        raise SymbolicBranch("symbolic branch outside explore()")
    if c.pos < len(c.decisions):
        cur, feas = c.decisions[c.pos]
    else:
        feas = [i for i, (f, _) in enumerate(alts) if _feasible(f)]
        if not feas:
            raise Abort()
        c.decisions.append([0, feas])
        cur = 0
    i = feas[cur]
    c.pos += 1
    c.pc.append(alts[i][0])
    return alts[i][1]


def explore(fn, max_paths=4000, timeout_ms=20000):
    """Run fn() once per feasible path.  Returns list of (path_condition, result).
    fn may raise ordinary exceptions; they are caught by fn's own wrapper."""
    global CTX
    decisions = []
    results = []
    while True:
        CTX = Ctx(decisions, timeout_ms)
        try:
            out = fn()
            results.append((list(CTX.pc), out))
            STATS["paths"] += 1
        except Abort:
            STATS["aborted_paths"] += 1
        finally:
            ctx = CTX
            CTX = None
        decisions = ctx.decisions[:ctx.pos]
        while decisions and decisions[-1][0] + 1 >= len(decisions[-1][1]):
            decisions.pop()
        if not decisions:
            break
        decisions[-1][0] += 1
        if len(results) > max_paths:
            raise Inconclusive("more than %d paths" % max_paths)
    return results


# --------------------------------------------------------------------------
# symbolic bool / int
# --------------------------------------------------------------------------
def tob(x):
    if isinstance(x, SB):
        return x.f
    if isinstance(x, z3.BoolRef):
        return x
    return z3.BoolVal(bool(x))


class SB:
    __slots__ = ("f",)

    def __init__(self, f):
        self.f = f

    def __bool__(self):
        f = z3.simplify(self.f)
        if z3.is_true(f):
            return True
        if z3.is_false(f):
            return False
        return decide([(self.f, True), (z3.Not(self.f), False)])

    def __and__(self, o):
        return SB(z3.And(self.f, tob(o)))
    __rand__ = __and__

    def __or__(self, o):
        return SB(z3.Or(self.f, tob(o)))
    __ror__ = __or__

    def __invert__(self):
        return SB(z3.Not(self.f))

    def __repr__(self):
        return "SB(%s)" % self.f


def toi(x):
    if isinstance(x, SI):
        return x.e
    if isinstance(x, (bool, np.bool_)):
        return z3.IntVal(int(x))
    if isinstance(x, (int, np.integer)):
        return z3.IntVal(int(x))
    raise TypeError(type(x))


class SI:
    """symbolic integer with a declared range [lo, hi] used for concretisation"""
    __slots__ = ("e", "lo", "hi")

    def __init__(self, e, lo=-16, hi=16):
        self.e = e
        self.lo = lo
        self.hi = hi

    def _b(self, o, op, lo=None, hi=None):
        if isinstance(o, (SI, int, np.integer)) and not isinstance(o, bool):
            return SI(op(self.e, toi(o)), min(self.lo, -64), max(self.hi, 64))
        return NotImplemented

    def __add__(s, o):
        if isinstance(o, (S, float, Fraction)):
            return S.of(s) + o
        return s._b(o, lambda a, b: a + b)
    __radd__ = __add__

    def __sub__(s, o):
        if isinstance(o, (S, float, Fraction)):
            return S.of(s) - o
        return s._b(o, lambda a, b: a - b)

    def __rsub__(s, o):
        if isinstance(o, (S, float, Fraction)):
            return S.of(o) - S.of(s)
        return SI(toi(o) - s.e, -64, 64)

    def __mul__(s, o):
        if isinstance(o, (S, float, Fraction)):
            return S.of(s) * o
        return s._b(o, lambda a, b: a * b)
    __rmul__ = __mul__

    def __truediv__(s, o):
        return S.of(s) / o

    def __rtruediv__(s, o):
        return S.of(o) / S.of(s)

    def __neg__(s):
        return SI(-s.e, -s.hi, -s.lo)

    def __pos__(s):
        return s

    def __lt__(s, o):
        if isinstance(o, np.ndarray) and o.shape != ():
            return NotImplemented
        if isinstance(o, (S, float, Fraction)):
            return S.of(s) < o
        return SB(s.e < toi(o))

    def __le__(s, o):
        if isinstance(o, np.ndarray) and o.shape != ():
            return NotImplemented
        if isinstance(o, (S, float, Fraction)):
            return S.of(s) <= o
        return SB(s.e <= toi(o))

    def __gt__(s, o):
        if isinstance(o, np.ndarray) and o.shape != ():
            return NotImplemented
        if isinstance(o, (S, float, Fraction)):
            return S.of(s) > o
        return SB(s.e > toi(o))

    def __ge__(s, o):
        if isinstance(o, np.ndarray) and o.shape != ():
            return NotImplemented
        if isinstance(o, (S, float, Fraction)):
            return S.of(s) >= o
        return SB(s.e >= toi(o))

    def __eq__(s, o):
        if o is None:
            return False
        if isinstance(o, np.ndarray) and o.shape != ():
            return NotImplemented
        if isinstance(o, (S, float, Fraction)):
            return S.of(s) == o
        try:
            return SB(s.e == toi(o))
        except TypeError:
            return False

    def __ne__(s, o):
        r = s.__eq__(o)
        if r is NotImplemented:
            return r
        if isinstance(r, SB):
            return ~r
        return not r

    def concretise(s):
        e = z3.simplify(s.e)
        if z3.is_int_value(e):
            return e.as_long()
        return decide([(s.e == v, v) for v in range(s.lo, s.hi + 1)])

    def __index__(s):
        return s.concretise()

    def __int__(s):
        return s.concretise()

    def __float__(s):
        return float(s.concretise())

    def __hash__(s):
        return hash(s.concretise())

    def __repr__(s):
        return "SI(%s)" % s.e


# --------------------------------------------------------------------------
# real terms
# --------------------------------------------------------------------------
_SQ = {}          # Fraction q -> z3 Real symbol s with s*s = q, s > 0
LIFT_FLOATS = True


def reset_sqrt():
    _SQ.clear()
    _EXP_ATOMS.clear()
    _DIVS.clear()


def sqrt_axioms():
    """side conditions defining auxiliary symbols (sqrt constants, quotients)"""
    return [z3.And(v * v == z3.RealVal(str(q)), v > 0) for q, v in _SQ.items()] + [ax for _, ax in _DIVS.values()]


def sqrt_values():
    """concrete values of the sqrt symbols (for model evaluation)"""
    return {str(v): float(q) ** 0.5 for q, v in _SQ.items()}


def liftfloat(x):
    """exact algebraic number denoted by a double met in the code (DESIGN 2.1)"""
    x = float(x)
    if x != x or x in (float("inf"), float("-inf")):
        raise ValueError("non-finite float in symbolic run: %r" % x)
    if not LIFT_FLOATS:
        return Fraction(x)
    if x != 0 and abs(x) < 1e-6:
        return Fraction(x)          # tiny constants (tolerances such as 2**-26): exact dyadic value
    f = Fraction(x).limit_denominator(1000)
    if abs(float(f) - x) <= 1e-14 * max(1.0, abs(x)):
        return f
    x2 = x * x
    f2 = Fraction(x2).limit_denominator(1000)
    if f2 != 0 and abs(float(f2) - x2) <= 1e-14 * max(1.0, x2):
        if f2 not in _SQ:
            _SQ[f2] = z3.Real("sqrt_%d_%d" % (f2.numerator, f2.denominator))
        return _SQ[f2] if x > 0 else -_SQ[f2]
    return Fraction(x)


def zr(x):
    """real term -> z3 ArithRef"""
    if isinstance(x, z3.ArithRef):
        return x
    if isinstance(x, Fraction):
        if x.denominator == 1:
            return z3.RealVal(x.numerator)
        return z3.RealVal(str(x))
    if isinstance(x, (int, np.integer)):
        return z3.RealVal(int(x))
    raise TypeError(type(x))


def _c(x):
    if isinstance(x, Fraction):
        return x
    if isinstance(x, (bool, np.bool_)):
        return Fraction(int(x))
    if isinstance(x, (int, np.integer)):
        return Fraction(int(x))
    if isinstance(x, (float, np.floating)):
        return liftfloat(x)
    if isinstance(x, z3.ArithRef):
        if x.is_int():
            return z3.ToReal(x)
        return x
    raise TypeError(type(x))


def _isz(x):
    return isinstance(x, Fraction) and x == 0


def _iso(x):
    return isinstance(x, Fraction) and x == 1


def r_add(a, b):
    if _isz(a):
        return b
    if _isz(b):
        return a
    if isinstance(a, Fraction) and isinstance(b, Fraction):
        return a + b
    return zr(a) + zr(b)


def r_neg(a):
    return -a


def r_sub(a, b):
    if _isz(b):
        return a
    if isinstance(a, Fraction) and isinstance(b, Fraction):
        return a - b
    if _isz(a):
        return -b
    return zr(a) - zr(b)


def r_mul(a, b):
    if _isz(a) or _isz(b):
        return Fraction(0)
    if _iso(a):
        return b
    if _iso(b):
        return a
    if isinstance(a, Fraction) and isinstance(b, Fraction):
        return a * b
    return zr(a) * zr(b)


def r_div(a, b):
    if isinstance(b, Fraction):
        if b == 0:
            raise ZeroDivisionError("symbolic run: division by concrete zero")
        return r_mul(a, 1 / b)
    if _isz(a):
        return Fraction(0)
    # symbolic divisor: fresh quotient q with the defining axiom q*b == a (b != 0 is
    # assumed: the real code would raise / produce inf there).  Far easier for nlsat
    # than a division term.
    key = (zr(a).sexpr(), zr(b).sexpr())
    if key not in _DIVS:
        q = z3.Real("div!%d" % len(_DIVS))
        _DIVS[key] = (q, z3.And(q * zr(b) == zr(a), zr(b) != 0))
    return _DIVS[key][0]


_DIVS = {}


def div_axioms():
    return [ax for _, ax in _DIVS.values()]


class S:
    """complex scalar: (re, im), each a Fraction or z3 Real term"""
    __slots__ = ("re", "im")
    NOCONJ = False     # harnesses over real symbols forbid conjugation (DESIGN 2.1)

    def __init__(self, re, im=Fraction(0)):
        self.re = _c(re)
        self.im = _c(im)

    @staticmethod
    def of(x):
        if isinstance(x, S):
            return x
        if isinstance(x, SI):
            return S(z3.ToReal(x.e))
        if isinstance(x, (complex, np.complexfloating)):
            return S(_c(float(x.real)), _c(float(x.imag)))
        if isinstance(x, (int, float, np.integer, np.floating, Fraction, bool, np.bool_)):
            return S(_c(x))
        if isinstance(x, z3.ArithRef):
            return S(x)
        if isinstance(x, np.ndarray) and x.shape == ():
            return S.of(x.item())
        raise TypeError(type(x))

    # arithmetic ---------------------------------------------------------
    def __add__(self, o):
        if isinstance(o, np.ndarray) and o.shape != ():
            return NotImplemented
        try:
            o = S.of(o)
        except TypeError:
            return NotImplemented
        return S(r_add(self.re, o.re), r_add(self.im, o.im))
    __radd__ = __add__

    def __neg__(self):
        return S(r_neg(self.re), r_neg(self.im))

    def __pos__(self):
        return self

    def __sub__(self, o):
        if isinstance(o, np.ndarray) and o.shape != ():
            return NotImplemented
        try:
            o = S.of(o)
        except TypeError:
            return NotImplemented
        return S(r_sub(self.re, o.re), r_sub(self.im, o.im))

    def __rsub__(self, o):
        try:
            o = S.of(o)
        except TypeError:
            return NotImplemented
        return S(r_sub(o.re, self.re), r_sub(o.im, self.im))

    def __mul__(self, o):
        if isinstance(o, np.ndarray) and o.shape != ():
            return NotImplemented
        try:
            o = S.of(o)
        except TypeError:
            return NotImplemented
        if _isz(self.im) and _isz(o.im):
            return S(r_mul(self.re, o.re))
        return S(r_sub(r_mul(self.re, o.re), r_mul(self.im, o.im)),
                 r_add(r_mul(self.re, o.im), r_mul(self.im, o.re)))
    __rmul__ = __mul__

    def __truediv__(self, o):
        if isinstance(o, np.ndarray) and o.shape != ():
            return NotImplemented
        o = S.of(o)
        if _isz(o.im):
            return S(r_div(self.re, o.re), r_div(self.im, o.re))
        d = r_add(r_mul(o.re, o.re), r_mul(o.im, o.im))
        num = self * o.conjugate_()
        return S(r_div(num.re, d), r_div(num.im, d))

    def __rtruediv__(self, o):
        if isinstance(o, np.ndarray) and o.shape != ():
            return NotImplemented
        try:
            return S.of(o) / self
        except TypeError:
            return NotImplemented

    def __pow__(self, k):
        if isinstance(k, S) and k.is_concrete():
            k = k.re
        if isinstance(k, (float, Fraction)) and Fraction(k).denominator == 1:
            k = int(k)
        if isinstance(k, (int, np.integer)) and 0 <= int(k) <= 12:
            out = S(1)
            for _ in range(int(k)):
                out = out * self
            return out
        if isinstance(k, (int, np.integer)) and -12 <= int(k) < 0:
            return S(1) / (self ** (-int(k)))
        if self.is_concrete() and isinstance(k, (int, float, Fraction)):
            return S.of(complex(self) ** float(k))
        raise TypeError("unsupported symbolic power %r" % (k,))

    def conjugate_(self):
        return S(self.re, r_neg(self.im))

    def conjugate(self):
        if S.NOCONJ and not _isz(self.im):
            raise RuntimeError("conjugation in a real-symbol (conjugation-free) harness")
        return self.conjugate_()

    conj = conjugate

    @property
    def real(self):
        return S(self.re)

    @property
    def imag(self):
        return S(self.im)

    def is_concrete(self):
        return isinstance(self.re, Fraction) and isinstance(self.im, Fraction)

    def is_real(self):
        return _isz(self.im)

    # comparisons --------------------------------------------------------
    def _cmp(self, o, op):
        if isinstance(o, np.ndarray) and o.shape != ():
            return NotImplemented
        o = S.of(o)
        if not (_isz(self.im) and _isz(o.im)):
            raise TypeError("ordering of complex symbolic values")
        if isinstance(self.re, Fraction) and isinstance(o.re, Fraction):
            return op(self.re, o.re)
        return SB(op(zr(self.re), zr(o.re)))

    def __lt__(self, o):
        return self._cmp(o, lambda a, b: a < b)

    def __le__(self, o):
        return self._cmp(o, lambda a, b: a <= b)

    def __gt__(self, o):
        return self._cmp(o, lambda a, b: a > b)

    def __ge__(self, o):
        return self._cmp(o, lambda a, b: a >= b)

    def __eq__(self, o):
        if o is None:
            return False
        if isinstance(o, np.ndarray) and o.shape != ():
            return NotImplemented
        try:
            o = S.of(o)
        except TypeError:
            return False
        if self.is_concrete() and o.is_concrete():
            return self.re == o.re and self.im == o.im
        fs = []
        for p, q in ((self.re, o.re), (self.im, o.im)):
            if isinstance(p, Fraction) and isinstance(q, Fraction):
                if p != q:
                    return False
            else:
                fs.append(zr(p) == zr(q))
        return SB(z3.And(*fs))

    def __ne__(self, o):
        r = self.__eq__(o)
        if r is NotImplemented:
            return r
        if isinstance(r, SB):
            return ~r
        return not r

    def __bool__(self):
        if self.is_concrete():
            return bool(self.re != 0 or self.im != 0)
        return bool(self != 0)

    def __hash__(self):
        if self.is_concrete():
            return hash((self.re, self.im))
        return id(self)

    def __abs__(self):
        if self.is_concrete():
            return S.of(abs(complex(self)))
        if _isz(self.im):
            return S(z3.If(zr(self.re) >= 0, zr(self.re), -zr(self.re)))
        raise TypeError("abs of complex symbolic")

    def __complex__(self):
        if not self.is_concrete():
            raise SymbolicBranch("complex() of symbolic value")
        return complex(float(self.re), float(self.im))

    def __float__(self):
        if not self.is_concrete() or self.im != 0:
            raise SymbolicBranch("float() of symbolic/complex value")
        return float(self.re)

    def __repr__(self):
        return "S(%s,%s)" % (self.re, self.im)

    # numpy calls these on object arrays
    def sqrt(self):
        if self.is_concrete() and self.im == 0 and self.re >= 0:
            return S.of(float(self.re) ** 0.5)
        raise TypeError("sqrt of symbolic")

    def exp(self):
        return sym_exp(self)


# uninterpreted exp: exp(x+iy) -> a pair of atoms (fresh Real constants) per distinct
# simplified argument; exp(0) = 1; nothing but congruence on syntactically equal
# (after z3.simplify) arguments is assumed.  Atoms instead of z3 Functions keep the
# queries in pure QF_NRA (z3 is far slower on QF_UFNRA).
_EXP_ATOMS = {}


def reset_exp():
    _EXP_ATOMS.clear()


def exp_atoms():
    return dict(_EXP_ATOMS)


def sym_exp(x):
    x = S.of(x)
    if x.is_concrete():
        if x.re == 0 and x.im == 0:
            return S(1)
        import cmath
        return S.of(cmath.exp(complex(x)))
    a = z3.simplify(zr(x.re), som=True) if not isinstance(x.re, Fraction) else zr(x.re)
    b = z3.simplify(zr(x.im), som=True) if not isinstance(x.im, Fraction) else zr(x.im)
    if z3.is_rational_value(a) and z3.is_rational_value(b):
        # argument provably concrete after simplification (e.g. (o_a - o_a) * eta)
        fa = Fraction(a.numerator_as_long(), a.denominator_as_long())
        fb = Fraction(b.numerator_as_long(), b.denominator_as_long())
        return sym_exp(S(fa, fb))
    key = (a.sexpr(), b.sexpr())
    if key not in _EXP_ATOMS:
        k = len(_EXP_ATOMS)
        _EXP_ATOMS[key] = (z3.Real("expR!%d" % k), z3.Real("expI!%d" % k), a, b)
    er, ei = _EXP_ATOMS[key][:2]
    if isinstance(x.im, Fraction) and x.im == 0:
        return S(er)            # exp of a real number is real
    return S(er, ei)


# --------------------------------------------------------------------------
# arrays
# --------------------------------------------------------------------------
def sym_array(name, shape, cplx=False):
    a = np.empty(shape, dtype=object)
    for idx in np.ndindex(*shape):
        n = name + "_" + "_".join(map(str, idx))
        a[idx] = S(z3.Real(n + "r"), z3.Real(n + "i") if cplx else Fraction(0))
    return a


def lift(arr):
    """concrete numeric ndarray -> object array of S"""
    arr = np.asarray(arr)
    if arr.dtype == object:
        out = np.empty(arr.shape, dtype=object)
        for idx in np.ndindex(*arr.shape):
            out[idx] = S.of(arr[idx])
        return out
    out = np.empty(arr.shape, dtype=object)
    for idx in np.ndindex(*arr.shape):
        out[idx] = S.of(arr[idx])
    return out


def obj_zeros(shape, dtype=None, **kw):
    if isinstance(shape, (int, np.integer)):
        shape = (int(shape),)
    out = np.empty(tuple(shape), dtype=object)
    for idx in np.ndindex(*out.shape):
        out[idx] = S(0)
    return out


def obj_eye(n):
    out = obj_zeros((n, n))
    for i in range(n):
        out[i, i] = S(1)
    return out


def neq_terms(a, b):
    """list of z3 formulas 'entry differs' (+ python True if a concrete entry differs)"""
    a = np.asarray(a, dtype=object)
    b = np.asarray(b, dtype=object)
    if a.shape != b.shape:
        raise ValueError("shape mismatch %s vs %s" % (a.shape, b.shape))
    ds = []
    for idx in np.ndindex(*a.shape):
        x = S.of(a[idx])
        y = S.of(b[idx])
        for p, q in ((x.re, y.re), (x.im, y.im)):
            if isinstance(p, Fraction) and isinstance(q, Fraction):
                if p != q:
                    ds.append(z3.BoolVal(True))
            else:
                p, q = zr(p), zr(q)
                if not p.eq(q):
                    ds.append(p != q)
    return ds


def neq_any(a, b):
    ds = neq_terms(a, b)
    return z3.Or(*ds) if ds else z3.BoolVal(False)


def free_vars(*formulas):
    vs = {}
    seen = set()
    stack = list(formulas)
    while stack:
        x = stack.pop()
        i = x.get_id()
        if i in seen:
            continue
        seen.add(i)
        if z3.is_const(x) and x.decl().kind() == z3.Z3_OP_UNINTERPRETED:
            vs[str(x)] = x
        stack.extend(x.children())
    return [vs[k] for k in sorted(vs)]


def model_value(m, v):
    """z3 model value -> Fraction (rational) or float (algebraic)"""
    x = m.eval(v, model_completion=True)
    if z3.is_rational_value(x):
        return Fraction(x.numerator_as_long(), x.denominator_as_long())
    if z3.is_int_value(x):
        return Fraction(x.as_long())
    if z3.is_algebraic_value(x):
        a = x.approx(30)
        return Fraction(a.numerator_as_long(), a.denominator_as_long())
    if z3.is_true(x):
        return True
    if z3.is_false(x):
        return False
    raise ValueError("cannot evaluate %s -> %s" % (v, x))
