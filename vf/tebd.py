"""Building blocks for the PT-TEBD checks (C10): independent joint-state oracle for the
augmented MPS, symbolic process tensors / gates, the `Executor.map` contract stub.

Everything here is mode-agnostic: it works on object arrays of `S` (sym / frac) and on
complex ndarrays (real stack) alike.

Conventions taken from the documentation of the code under test (NOT from its
contraction code):
  * gamma tensor axes (pt_tebd_backend.py header drawing): 0 left bond, 1 physical
    (vectorised density matrix, index i*d+j), 2 process-tensor ("augmented") leg,
    3 right bond; lambda_k sits between gamma_k and gamma_{k+1}; chain state =
    gamma_0 lambda_0 gamma_1 lambda_1 ... gamma_{n-1}.
  * nearest-neighbour gate (mps_mpo.compute_nn_gate): left tensor (out, in, bond),
    right tensor (bond, out, in).
  * site gate / control: matrix[out, in].
  * process-tensor MPO (process_tensor.set_mpo_tensor): (past bond, future bond, in, out).
"""
import types

import numpy as np

import oqupy.process_tensor as ptm
from oqupy.mps_mpo import NnGate

from .sym import S, SI


def sym_complex(x, *a):
    """`complex` shadow for pt_tebd_backend (get_norm): keeps S, also inside a 0-d array"""
    if isinstance(x, np.ndarray) and x.dtype == object and x.shape == ():
        x = x[()]
    if isinstance(x, (S, SI)):
        return S.of(x)
    return complex(x, *a)


def sym_any(a, *args, **kw):
    """np.any for object arrays of S (used by _is_diagonal_matrix): numpy's own loop
    hands back an element instead of a bool.  Concrete entries -> np.bool_, symbolic
    entries -> SB (branching on it forks the path)."""
    a = np.asarray(a)
    if a.dtype != object or args or kw:
        return np.any(a, *args, **kw)
    out = np.bool_(False)
    symbolic = []
    for v in a.reshape(-1):
        v = S.of(v)
        if v.is_concrete():
            if v.re != 0 or v.im != 0:
                return np.bool_(True)
        else:
            symbolic.append(v != 0)
    for c in symbolic:
        out = c | out
    return out


def np_proxy():
    from .env import NpProxy
    return NpProxy({"any": sym_any})


# ---------------------------------------------------------------------------------
# joint state of an augmented MPS, axes (L, p0, a0, p1, a1, ..., R)
# ---------------------------------------------------------------------------------
def joint_from_tensors(gammas, lambda_mats):
    T = gammas[0]
    for i in range(1, len(gammas)):
        T = np.tensordot(T, lambda_mats[i - 1], axes=([T.ndim - 1], [0]))
        T = np.tensordot(T, gammas[i], axes=([T.ndim - 1], [0]))
    return T


def joint_state(backend):
    """joint tensor from the public getters of the real back-end"""
    n = backend.n
    return joint_from_tensors([backend.get_gamma(i) for i in range(n)],
                              [backend.get_lambda(i) for i in range(n - 1)])


def o_nn(T, k, gl, gr):
    """gate on sites (k, k+1): T'[.. o_l .. o_r ..] = sum gl[o_l,i_l,c] gr[c,o_r,i_r] T[.. i_l .. i_r ..]"""
    pl, pr = 1 + 2 * k, 3 + 2 * k
    T = np.tensordot(T, gl, axes=([pl], [1]))          # ..., o_l, c
    T = np.moveaxis(T, -2, pl)                         # o_l back in place, c last
    T = np.tensordot(T, gr, axes=([T.ndim - 1, pr], [0, 2]))   # ..., o_r
    T = np.moveaxis(T, -1, pr)
    return T


def o_site(T, k, M):
    p = 1 + 2 * k
    T = np.tensordot(T, M, axes=([p], [1]))
    return np.moveaxis(T, -1, p)


def o_pt(T, k, mpo):
    """mpo[a, a', p, p'] acting on (physical, augmented) legs of site k"""
    p, a = 1 + 2 * k, 2 + 2 * k
    T = np.tensordot(T, mpo, axes=([p, a], [2, 0]))    # ..., a', p'
    T = np.moveaxis(T, -1, p)                          # p' in place, a' last
    T = np.moveaxis(T, -1, a)
    return T


def o_caps(T, caps):
    """contract the augmented legs with the caps and the (dimension-1) outer bonds
    with 1  ->  tensor (p0, p1, ..., p_{n-1})"""
    n = (T.ndim - 2) // 2
    assert T.shape[0] == 1 and T.shape[-1] == 1
    T = T.reshape(T.shape[1:-1])
    for k in reversed(range(n)):
        T = np.tensordot(T, caps[k], axes=([2 * k + 1], [0]))
    return T


def o_reduced(P, sites, dims):
    """reduced density matrix of `sites` from the physical tensor P (p0..p_{n-1}):
    trace the other sites (sum over i == j of p = i*d + j), rows = (i_s0, i_s1, ..),
    columns = (j_s0, j_s1, ..)"""
    n = P.ndim
    for k in reversed(range(n)):
        if k in sites:
            continue
        d = dims[k]
        P = sum(P.take(i * d + i, axis=k) for i in range(d))
    m = len(sites)
    ds = [dims[k] for k in sites]
    P = P.reshape([x for d in ds for x in (d, d)])
    P = P.transpose([2 * q for q in range(m)] + [2 * q + 1 for q in range(m)])
    dim = int(np.prod(ds))
    return P.reshape(dim, dim)


def scale(arr, f):
    """array * scalar, also for object arrays of S"""
    arr = np.asarray(arr)
    if arr.dtype != object:
        return arr * f
    out = np.empty(arr.shape, dtype=object)
    for idx in np.ndindex(*arr.shape):
        out[idx] = arr[idx] * f
    return out


def o_trace(P, dims):
    for k in reversed(range(P.ndim)):
        d = dims[k]
        P = sum(P.take(i * d + i, axis=k) for i in range(d))
    return P


# ---------------------------------------------------------------------------------
# symbolic building blocks
# ---------------------------------------------------------------------------------
def sparse_matrix(inp, name, D, shift, extra=True):
    """generalised permutation with symbolic weights (+ one concrete extra entry unless
    extra=False): keeps polynomial sizes small, still non-commuting and asymmetric"""
    t = inp.const(np.zeros((D, D)))
    for i in range(D):
        # symbolic weight, unconstrained in the symbolic run; the concrete validation points
        # avoid 0 (a chain state that is exactly zero is not a state: the real SVD then
        # truncates the bond to dimension 0)
        nm = "%s_%d" % (name, i)
        t[i, (i + shift) % D] = inp.real(nm) if inp.mode == "sym" else inp.real(nm, nonzero=True)
    if not extra:
        return t
    if shift % D != 0:
        t[0, 0] = inp.one()
    else:
        t[0, 1] = inp.one()
    return t


def tp_matrix(inp, name, d, kind, traceless=False, shift=1):
    """superoperator that is trace preserving BY CONSTRUCTION (traceless=True: output trace
    identically 0): the rows of the diagonal Liouville indices are eliminated.
    kind 'dense' (all other entries symbolic) or 'perm' (generalised permutation)."""
    D = d * d
    dp = [k * (d + 1) for k in range(d)]
    if kind == "dense":
        m = inp.arr(name, (D, D))
        for j in range(D):
            acc = inp.one() if (j in dp and not traceless) else inp.zero()
            for i in dp[1:]:
                acc = acc - m[i, j]
            m[0, j] = acc
        return m
    # generalised permutation that maps the diagonal Liouville indices among themselves
    # (d = 2: shift 1 -> (0 3)(1 2), shift 2 -> (1 2), shift 3 -> (0 3), else identity); for
    # the traceless variant any column pattern is admissible, the rows of dp are zero
    assert d == 2
    perm = {1: [3, 2, 1, 0], 2: [0, 2, 1, 3], 3: [3, 1, 2, 0]}.get(shift, [0, 1, 2, 3])
    m = inp.const(np.zeros((D, D)))
    for i in range(D):
        j = perm[i] if not traceless else (i + shift) % D
        if i in dp:
            m[i, j] = inp.one() if not traceless else inp.zero()
        else:
            nm = "%s_%d" % (name, i)
            m[i, j] = inp.real(nm) if inp.mode == "sym" else inp.real(nm, nonzero=True)
    return m


def make_tp_gate(inp, name, d, kind):
    """chi = 2 two-site gate A1 (x) B1 + A2 (x) B2 with A1, B1 trace preserving and A2 of zero
    output trace: trace preserving by construction (a family, not every such gate)"""
    D = d * d
    gl = inp.const(np.zeros((D, D, 2)))
    gr = inp.const(np.zeros((2, D, D)))
    gl[:, :, 0] = tp_matrix(inp, name + "A1", d, kind, shift=1)
    gl[:, :, 1] = tp_matrix(inp, name + "A2", d, kind, traceless=True, shift=2)
    gr[0, :, :] = tp_matrix(inp, name + "B1", d, kind, shift=3)
    gr[1, :, :] = inp.arr(name + "B2", (D, D)) if kind == "dense" else sparse_matrix(inp, name + "B2", D, 1, extra=False)
    return gl, gr


def make_gate(inp, name, dl, dr, chi, kind="dense"):
    """symbolic nearest-neighbour gate tensors (out, in, bond), (bond, out, in)"""
    Dl, Dr = dl * dl, dr * dr
    if kind == "dense":
        return inp.arr(name + "l", (Dl, Dl, chi)), inp.arr(name + "r", (chi, Dr, Dr))
    gl = inp.const(np.zeros((Dl, Dl, chi)))
    gr = inp.const(np.zeros((chi, Dr, Dr)))
    for c in range(chi):
        gl[:, :, c] = sparse_matrix(inp, "%sl%d" % (name, c), Dl, shift=1 + c, extra=(kind == "sparse"))
        gr[c, :, :] = sparse_matrix(inp, "%sr%d" % (name, c), Dr, shift=2 + c, extra=(kind == "sparse"))
    return gl, gr


def make_transforms(inp, name, D):
    """non-trivial transform_in / transform_out of a process tensor: generalised
    permutations with symbolic weights plus one concrete entry (cheap, asymmetric,
    non-commuting with the MPO tensors)"""
    return sparse_matrix(inp, name + "Ti", D, shift=1), sparse_matrix(inp, name + "To", D, shift=2)


def apply_transforms(full, tin, tout):
    """documented meaning of get_mpo_tensor(transformed=True): transform_in maps the system
    basis to the process-tensor basis on the INPUT leg, transform_out maps back on the OUTPUT
    leg:  M'[a, b, k, l] = sum_ij tin[k, i] M[a, b, i, j] tout[j, l]"""
    t = np.tensordot(full, tin, axes=([2], [1]))      # a b j k
    t = np.moveaxis(t, -1, 2)                         # a b k j
    return np.tensordot(t, tout, axes=([3], [0]))     # a b k l


def make_pt(inp, name, d, N, bond, rank=4, kind="dense", transforms=False):
    """SimpleProcessTensor of length N with symbolic MPO tensors and caps (and, with
    transforms=True, symbolic transform_in / transform_out).
    -> (pt, [effective rank-4 tensors as seen by the system], [caps])"""
    D = d * d
    tin = tout = None
    if transforms:
        tin, tout = make_transforms(inp, name, D)
    pt = ptm.SimpleProcessTensor(hilbert_space_dimension=d, dt=0.1, transform_in=tin, transform_out=tout)
    eff, caps = [], []
    for k in range(N):
        bl = 1 if k == 0 else bond
        br = bond
        if rank == 3:
            M = inp.arr("%sM%d" % (name, k), (bl, br, D))
            full = inp.const(np.zeros((bl, br, D, D)))
            for a in range(bl):
                for b in range(br):
                    for i in range(D):
                        full[a, b, i, i] = M[a, b, i]
        elif kind == "dense":
            M = inp.arr("%sM%d" % (name, k), (bl, br, D, D))
            full = M
        else:
            M = inp.const(np.zeros((bl, br, D, D)))
            for a in range(bl):
                for b in range(br):
                    M[a, b] = sparse_matrix(inp, "%sM%d_%d%d" % (name, k, a, b), D, shift=(1 + a + 2 * b + k) % D,
                                            extra=(kind == "sparse"))
            full = M
        pt.set_mpo_tensor(k, M)
        eff.append(apply_transforms(full, tin, tout) if transforms else full)
    for k in range(N + 1):
        bl = 1 if k == 0 else bond
        c = inp.arr("%sc%d" % (name, k), (bl,))
        caps.append(c)
        pt.set_cap_tensor(k, c)
    return pt, eff, caps


def gate_stub(gates):
    """stand-in for mps_mpo.compute_nn_gate (scipy expm + SVD): hands back the
    harness's gate tensors for the requested bond, records the calls"""
    calls = []

    def compute_nn_gate(liouvillian, site, hs_dim_l, hs_dim_r, dt, epsrel):
        calls.append((site, hs_dim_l, hs_dim_r, dt))
        gl, gr = gates[site]
        return NnGate(site=site, tensors=(gl, gr))
    compute_nn_gate.calls = calls
    return compute_nn_gate


# ---------------------------------------------------------------------------------
# concurrent.futures contract stub (DESIGN C10/H2)
# ---------------------------------------------------------------------------------
import collections

FIRST_COMPLETED = "FIRST_COMPLETED"
FIRST_EXCEPTION = "FIRST_EXCEPTION"
ALL_COMPLETED = "ALL_COMPLETED"
DoneAndNotDoneFutures = collections.namedtuple("DoneAndNotDoneFutures", "done not_done")
_SEQ = [0]


class Future:
    """documented surface of concurrent.futures.Future that is meaningful here"""

    def __init__(self, executor, fn, args, kwargs):
        self._executor, self._fn, self._args, self._kwargs = executor, fn, args, kwargs
        self._done = False
        self._result = None
        self._exception = None
        self._callbacks = []
        self._seq = None             # position in the global completion order

    def _run(self):
        try:
            self._result = self._fn(*self._args, **self._kwargs)
        except Exception as e:       # noqa: stored, re-raised by result()
            self._exception = e
        self._done = True
        _SEQ[0] += 1
        self._seq = _SEQ[0]
        for cb in self._callbacks:
            cb(self)

    def done(self):
        return self._done

    def running(self):
        return False

    def cancel(self):
        return False

    def cancelled(self):
        return False

    def result(self, timeout=None):
        self._executor._run_until(lambda: self._done)
        if self._exception is not None:
            raise self._exception
        return self._result

    def exception(self, timeout=None):
        self._executor._run_until(lambda: self._done)
        return self._exception

    def add_done_callback(self, fn):
        if self._done:
            fn(self)
        else:
            self._callbacks.append(fn)


class _OrderedExecutor:
    """Documented contract of concurrent.futures.Executor (submit / map / shutdown /
    context manager) without real concurrency.  A submitted task may run at any time
    between its submission and the moment its result is needed; tasks that are pending
    together run in an arbitrary relative order.  Model: tasks run on the calling thread;
    when a result is first needed (Future.result, iteration over map() results,
    as_completed, wait, shutdown) the tasks pending at that moment are put into a run
    queue in an order given by `chooser` (solver-chosen permutation), and the queue is
    executed only as far as needed (the rest stays pending until the next need or the
    shutdown).  Completion order == run order.  map() yields in SUBMISSION order,
    as_completed() in COMPLETION order."""
    log = None
    chooser = None

    def __init__(self, max_workers=None, *a, **kw):
        # documented constructor contract of ThreadPoolExecutor / ProcessPoolExecutor
        if max_workers is not None and max_workers <= 0:
            raise ValueError("max_workers must be greater than 0")
        self._unordered = []         # submitted, run position not fixed yet
        self._queue = []             # run order fixed, not run yet
        self._shutdown = False

    def __enter__(self):
        return self

    def __exit__(self, *exc):
        self.shutdown(wait=True)
        return False

    def submit(self, fn, /, *args, **kwargs):
        if self._shutdown:
            raise RuntimeError("cannot schedule new futures after shutdown")
        f = Future(self, fn, args, kwargs)
        self._unordered.append(f)
        return f

    def map(self, fn, *iterables, timeout=None, chunksize=1):
        fs = [self.submit(fn, *args) for args in zip(*iterables)]

        def results():
            for f in fs:
                yield f.result()
        return results()

    def shutdown(self, wait=True, cancel_futures=False):
        self._shutdown = True
        self._run_until(lambda: False)

    # -- scheduling ---------------------------------------------------------------
    def _step(self):
        """run one pending task; False if nothing is pending"""
        if not self._queue and self._unordered:
            batch, self._unordered = self._unordered, []
            perm = tuple(type(self).chooser(len(batch)))
            assert sorted(perm) == list(range(len(batch)))
            type(self).log.append(perm)
            self._queue = [batch[i] for i in perm]
        if not self._queue:
            return False
        self._queue.pop(0)._run()
        return True

    def _run_until(self, cond):
        while not cond():
            if not self._step():
                break


def as_completed(fs, timeout=None):
    """yields the futures in completion order (already finished ones first)"""
    fs = list(dict.fromkeys(fs))
    pending = [f for f in fs if not f.done()]
    for f in sorted((f for f in fs if f.done()), key=lambda f: f._seq):
        yield f
    while pending:
        if not pending[0]._executor._step():
            raise RuntimeError("future can never complete")
        for f in sorted((f for f in pending if f.done()), key=lambda f: f._seq):
            pending.remove(f)
            yield f


def wait(fs, timeout=None, return_when=ALL_COMPLETED):
    fs = list(dict.fromkeys(fs))

    def satisfied():
        if return_when == FIRST_COMPLETED:
            return any(f.done() for f in fs)
        if return_when == FIRST_EXCEPTION and any(f.done() and f._exception is not None for f in fs):
            return True
        return all(f.done() for f in fs)
    while fs and not satisfied():
        nxt = [f for f in fs if not f.done()][0]
        if not nxt._executor._step():
            break
    return DoneAndNotDoneFutures({f for f in fs if f.done()}, {f for f in fs if not f.done()})


def fake_concurrent(chooser):
    """module object to shadow the global `concurrent` of pt_tebd_backend.
    chooser(k) -> run order (a permutation of range(k)) of k tasks pending together"""
    log = []
    cls_t = type("ThreadPoolExecutor", (_OrderedExecutor,), {"log": log, "chooser": staticmethod(chooser)})
    cls_p = type("ProcessPoolExecutor", (_OrderedExecutor,), {"log": log, "chooser": staticmethod(chooser)})
    fut = types.ModuleType("concurrent.futures (contract stub)")
    fut.ThreadPoolExecutor = cls_t
    fut.ProcessPoolExecutor = cls_p
    fut.Executor = _OrderedExecutor
    fut.Future = Future
    fut.as_completed = as_completed
    fut.wait = wait
    fut.FIRST_COMPLETED, fut.FIRST_EXCEPTION, fut.ALL_COMPLETED = FIRST_COMPLETED, FIRST_EXCEPTION, ALL_COMPLETED
    mod = types.ModuleType("concurrent (stub)")
    mod.futures = fut
    mod.log = log
    return mod


def choose_permutation(inp, k, name):
    """run order of k tasks as a harness input: a sequence of boolean inputs `name_i_j`
    ("the next task to run is the j-th of the remaining ones").  In symbolic mode every
    decision forks the path, so all k! orders are explored; the booleans (not integers)
    keep the proof obligations in pure real arithmetic."""
    remaining = list(range(k))
    perm = []
    while len(remaining) > 1:
        pick = len(remaining) - 1
        for j in range(len(remaining) - 1):
            if inp.bool("%s_%d_%d" % (name, len(perm), j)):
                pick = j
                break
        perm.append(remaining.pop(pick))
    perm.extend(remaining)
    return tuple(perm)
