"""Shared harness building blocks (mode-agnostic: work on S object arrays and on
complex ndarrays alike)."""
import numpy as np

import oqupy
import oqupy.process_tensor as ptm
import oqupy.system_dynamics as sd
from oqupy.backends.tempo_backend import TempoBackend, MeanFieldTempoBackend
from oqupy.backends.pt_tempo_backend import PtTempoBackend

from .sym import S

EPS_REAL = 1e-14       # SVD tolerance used when a harness runs on the real stack


def diag_positions(d):
    """Liouville indices (s+, s-) with s+ == s- (commutator eigenvalue 0)"""
    return [k * (d + 1) for k in range(d)]


class FakeSystem(oqupy.System):
    """System whose propagators are handed in directly (DESIGN 2.1(5)): the real
    `System.__init__` runs on a dummy Hamiltonian, `get_propagators` returns the
    harness's symbolic half-step propagators."""

    def __init__(self, d, P1, P2):
        super().__init__(np.zeros((d, d)))
        self._P1, self._P2 = P1, P2
        self.calls = []
        self.calls_full = []

    def get_propagators(self, dt, start_time, subdiv_limit, epsrel):
        self.calls.append((dt, start_time))
        self.calls_full.append((dt, start_time, subdiv_limit, epsrel))
        return lambda step: (self._P1[step], self._P2[step])


class FakeParamSystem(oqupy.ParameterizedSystem):
    def __init__(self, d, P1, P2):
        super().__init__(lambda x: np.zeros((d, d)) + 0 * x)
        self._P1, self._P2 = P1, P2

    def get_propagators(self, dt, parameters):
        return lambda step: (self._P1[step], self._P2[step])


def tp_prop(inp, name, d):
    """trace-preserving propagator by construction: column sums over the diagonal
    Liouville indices equal the trace functional"""
    D = d * d
    m = inp.arr(name, (D, D))
    dp = diag_positions(d)
    one, zero = inp.one(), inp.zero()
    for j in range(D):
        acc = one if j in dp else zero
        for i in dp[1:]:
            acc = acc - m[i, j]
        m[0, j] = acc
    return m


def gen_prop(inp, name, d, cplx=False):
    return inp.arr(name, (d * d, d * d), cplx=cplx)


class Influences:
    """symbolic influence matrices with the trace structure built in (DESIGN 4):
    I_k[i, j] = 1 for j with zero commutator eigenvalue; I_0 diagonal with the same
    property; R_1 tied to I_K (C12/H1(a)); R_j only when add_correlation_time is set."""

    def __init__(self, inp, d, K, tau_add=False, name="I", trace_structure=True, cplx=False):
        self.inp, self.d, self.K, self.tau_add, self.name = inp, d, K, tau_add, name
        self.ts, self.cplx = trace_structure, cplx
        self.cache = {}
        self.requested = []

    def _mat(self, nm):
        D = self.d ** 2
        m = self.inp.arr(nm, (D, D), cplx=self.cplx)
        if self.ts:
            for i in range(D):
                for j in diag_positions(self.d):
                    m[i, j] = self.inp.one()
        return m

    def __call__(self, dk):
        self.requested.append(dk)
        D = self.d ** 2
        if dk not in self.cache:
            if dk == 0:
                v = self.inp.arr(self.name + "0", (D,), cplx=self.cplx)
                if self.ts:
                    for j in diag_positions(self.d):
                        v[j] = self.inp.one()
                m = np.diag(v) if self.inp.mode == "real" else _odiag(v)
                self.cache[dk] = m
            elif dk < 0:
                if not self.tau_add:
                    return None
                if dk == -1:
                    return self(self.K)
                self.cache[dk] = self._mat("%sR%d" % (self.name, -dk))
            else:
                self.cache[dk] = self._mat("%s%d" % (self.name, dk))
        return self.cache[dk].copy()

    def peek(self, dk):
        r = self.requested
        out = self(dk)
        self.requested = r[:-1] if r and r[-1] == dk else r
        return out


def _odiag(v):
    n = len(v)
    m = np.empty((n, n), dtype=object)
    for i in range(n):
        for j in range(n):
            m[i, j] = v[i] if i == j else S(0)
    return m


def run_tempo(inp, rho0_vec, influence, P1, P2, N, K, d, unitary=None, degeneracy_maps=None,
              sum_north=None, sum_west=None):
    """real TempoBackend.initialize / compute_step; returns list of state vectors"""
    D = d * d
    sn = np.ones(D) if sum_north is None else sum_north
    sw = np.ones(D) if sum_west is None else sum_west
    U = np.identity(d) if unitary is None else unitary
    tb = TempoBackend(rho0_vec, influence, U, lambda step: (P1[step], P2[step]), sn, sw, K,
                      EPS_REAL, degeneracy_maps=degeneracy_maps, dim=d)
    out = [tb.initialize()[1]]
    for _ in range(N):
        out.append(tb.compute_step()[1])
    return out


def run_pt_tempo(inp, influence, N, K, d, dt=0.1, degeneracy_maps=None, sum_north=None, sum_west=None,
                 transform_in=None, transform_out=None, process_tensor=None):
    """real PtTempoBackend.initialize / compute_step / update_process_tensor"""
    assert N >= 2, "harness precondition: PT-TEMPO needs at least two steps (PtTempo.__init__ asserts it)"
    D = d * d
    sn = np.ones(D) if sum_north is None else sum_north
    sw = np.ones(D) if sum_west is None else sum_west
    pt = process_tensor if process_tensor is not None else ptm.SimpleProcessTensor(
        hilbert_space_dimension=d, dt=dt, transform_in=transform_in, transform_out=transform_out)
    pb = PtTempoBackend(d, influence, pt, sn, sw, N, (K if K is not None else N), EPS_REAL, {},
                        degeneracy_maps=degeneracy_maps)
    pb.initialize()
    while pb.compute_step():
        pass
    pb.update_process_tensor()
    return pt


def dynamics_states(dyn):
    return list(dyn._states)


def einsum(spec, *ops):
    """np.einsum that also works on object arrays of S (no optimize)"""
    if any(isinstance(o, np.ndarray) and o.dtype == object for o in ops):
        return np.einsum(spec, *[np.asarray(o, dtype=object) for o in ops])
    return np.einsum(spec, *ops)


def oracle_pt_dynamics(rho0, envs, P1, P2, n, pre=None, post=None):
    """explicit joint evolution: system half step, environments in list order, system
    half step; controls as documented.  envs: list of (Ms, caps) with Ms[k] rank-4
    (bl, br, in, out).  Returns the reduced state vector at step n (after pre-control
    of step n, before post-control)."""
    D = rho0.size
    v = rho0.reshape(D)
    # joint tensor: axes = env bonds..., system
    v = v.reshape((1,) * len(envs) + (D,))
    pre = pre or {}
    post = post or {}
    letters = "abcdefgh"
    ne = len(envs)
    for k in range(n + 1):
        if k in pre:
            v = np.tensordot(v, pre[k], axes=([ne], [1]))
        if k == n:
            break
        if k in post:
            v = np.tensordot(v, post[k], axes=([ne], [1]))
        v = np.tensordot(v, P1[k], axes=([ne], [1]))
        for e, (Ms, caps) in enumerate(envs):
            M = Ms[k]
            if M is None:
                continue
            # contract bond e and system with M[bl, br, in, out]
            v = np.tensordot(v, M, axes=([e, ne], [0, 2]))   # axes: others..., br, out
            # tensordot removes axes e and ne, appends (br, out): move br back to e
            v = np.moveaxis(v, -2, e)
        v = np.tensordot(v, P2[k], axes=([ne], [1]))
    for e, (Ms, caps) in reversed(list(enumerate(envs))):
        v = np.tensordot(v, caps[n], axes=([e], [0]))
    return v
