"""Helpers for the time-specification checks (C07, C18).

SI OP ndarray  element-wise like numpy's (installed at import, see _install_array_comparisons).
near_time a float time given *by construction* as  start + dt*(k + e),  |e| < 1/2:  its nearest
          step is k by arithmetic (no rounding code involved), and every non-tie real time has
          exactly one such decomposition -- the quantification is over all non-tie real times.
"""
from fractions import Fraction

import numpy as np
import z3

from .sym import S, SI, SB, toi


def _wrap_cmp(cls):
    for name in ("__lt__", "__le__", "__gt__", "__ge__", "__eq__", "__ne__"):
        orig = getattr(cls, name)

        def wrapped(self, o, _orig=orig):
            if isinstance(o, np.ndarray) and o.shape != ():
                out = np.empty(o.shape, dtype=bool)
                for idx in np.ndindex(*o.shape):
                    out[idx] = bool(_orig(self, o[idx]))
                return out
            return _orig(self, o)
        wrapped.__name__ = name
        setattr(cls, name, wrapped)
    if cls.__dict__.get("__hash__") is None:      # assigning __eq__ must not drop hashing
        raise RuntimeError("hash lost")


def _install_array_comparisons():
    """`SI OP ndarray`: vf.sym.SI raises TypeError (toi(ndarray)) and numpy defers to SI because of its
    __array_priority__, so `ft_max > last_times` in the real bookkeeping code cannot run with a symbolic
    `ft_max`.  The six comparison methods are wrapped here (run-time only, this process only) to do what
    numpy's element-wise loop does for `int OP array`: a bool array holding the truth value of every
    element comparison (a symbolic element forks the path).  Suggested for vf/sym.py itself."""
    if getattr(SI, "_vf_array_cmp", False):
        return
    _wrap_cmp(SI)
    _wrap_cmp(S)         # `time in control_times` (ndarray.__contains__ -> array == S) needs it as well
    SI._vf_array_cmp = True


def _install_reflected_array_ops():
    """`ndarray OP S` (e.g. `control_times - start_time`, `... / dt` in Control.get_controls): numpy defers
    to S because of its __array_priority__, and S's reflected operators do not accept arrays.  They are
    wrapped here (run-time only) to broadcast element-wise like numpy does for a Python scalar.
    Suggested for vf/sym.py itself."""
    if getattr(S, "_vf_array_rops", False):
        return
    import operator
    for name, op in (("__radd__", operator.add), ("__rsub__", operator.sub), ("__rmul__", operator.mul),
                     ("__rtruediv__", operator.truediv)):
        orig = getattr(S, name)

        def wrapped(self, o, _orig=orig, _op=op):
            if isinstance(o, np.ndarray) and o.shape != ():
                out = np.empty(o.shape, dtype=object)
                for idx in np.ndindex(*o.shape):
                    out[idx] = _op(o[idx], self)
                return out
            return _orig(self, o)
        wrapped.__name__ = name
        setattr(S, name, wrapped)
    S._vf_array_rops = True


_install_array_comparisons()
_install_reflected_array_ops()
TI = SI


def sym_int(inp, name, lo, hi):
    return inp.int(name, lo, hi)


def near_time(inp, name, k, start, dt, half=Fraction(1, 2)):
    """time whose nearest step is k:  start + dt*(k + e), -1/2 < e < 1/2 (ties excluded)"""
    e = inp.real(name + "_e", lo=-half, hi=half)
    inp.assume(e > -half)
    inp.assume(e < half)
    if inp.mode == "real":
        return float(start) + float(dt) * (k + e)
    return S.of(start) + S.of(dt) * (S.of(k) + e)


def as_int(x):
    """concrete python int of a (by now pinned) symbolic or concrete integer"""
    if isinstance(x, SI):
        return x.concretise()
    return int(x)


def all_of(conds):
    """conjunction of python bools / SB -> python bool or SB"""
    fs = []
    for c in conds:
        if isinstance(c, SB):
            fs.append(c.f)
        elif isinstance(c, z3.BoolRef):
            fs.append(c)
        elif not bool(c):
            return False
    if not fs:
        return True
    return SB(z3.And(*fs))


def any_of(conds):
    fs = []
    for c in conds:
        if isinstance(c, SB):
            fs.append(c.f)
        elif isinstance(c, z3.BoolRef):
            fs.append(c)
        elif bool(c):
            return True
    if not fs:
        return False
    return SB(z3.Or(*fs))


def is_nan_entry(v):
    """entry of a result array that is the python/numpy NaN (never a symbolic scalar)"""
    if isinstance(v, (S, SI)):
        return False
    try:
        c = complex(v)
    except Exception:  # noqa
        return False
    return c != c


class _IdxArr(np.ndarray):
    """`np.arange(n)` whose list index may contain symbolic ints: numpy converts a list of Python ints
    to an index array by calling `__index__` on every entry; it refuses objects of another class, so
    the conversion (bounded concretisation by the engine) is done here, then numpy indexes as usual."""

    def __getitem__(self, key):
        if isinstance(key, list) and any(isinstance(k, SI) for k in key):
            key = [k.__index__() if isinstance(k, SI) else k for k in key]
        return np.asarray(np.ndarray.__getitem__(self, key))


def p_arange(*a, **kw):
    """np.arange; symbolic int arguments are concretised (bounded, exhaustive) as numpy's own
    `__index__` conversion of Python ints would require"""
    a = [as_int(x) if isinstance(x, SI) else x for x in a]
    return np.arange(*a, **kw).view(_IdxArr)
