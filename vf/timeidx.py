"""Helpers for the time-specification checks (C07, C18).

SI/S OP ndarray  element-wise like numpy's (installed at import, see _install_array_comparisons).
p_arange / time_np_overrides  NpProxy overrides: symbolic list indices / arange arguments are concretised
          by the engine; round/floor/trunc/rint give symbolic ints (ties excluded) and put the defining
          axioms of quotient variables on the live path condition.
near_time a float time given *by construction* as  start + dt*(k + e),  |e| < 1/2:  its nearest
          step is k by arithmetic (no rounding code involved), and every non-tie real time has
          exactly one such decomposition -- the quantification is over all non-tie real times.
"""
from fractions import Fraction

import numpy as np
import z3

from .sym import S, SI, SB, toi


def _wrap_cmp(cls):
    for name in ("__lt__", "__le__", "__gt__", "__ge__", "__eq__", "__ne__"):
        orig = getattr(cls, name)

        def wrapped(self, o, _orig=orig):
            if isinstance(o, np.ndarray) and o.shape != ():
                out = np.empty(o.shape, dtype=bool)
                for idx in np.ndindex(*o.shape):
                    out[idx] = bool(_orig(self, o[idx]))
                return out
            return _orig(self, o)
        wrapped.__name__ = name
        setattr(cls, name, wrapped)
    if cls.__dict__.get("__hash__") is None:      # assigning __eq__ must not drop hashing
        raise RuntimeError("hash lost")


def _install_array_comparisons():
    """`SI OP ndarray`: vf.sym.SI raises TypeError (toi(ndarray)) instead of leaving the comparison to
    numpy, so `ft_max > last_times` in the real bookkeeping code cannot run with a symbolic `ft_max`.  The six comparison methods are wrapped here (run-time only, this process only) to do what
    numpy's element-wise loop does for `int OP array`: a bool array holding the truth value of every
    element comparison (a symbolic element forks the path).  Suggested for vf/sym.py itself."""
    if getattr(SI, "_vf_array_cmp", False):
        return
    _wrap_cmp(SI)
    _wrap_cmp(S)         # `time in control_times` (ndarray.__contains__ -> array == S) needs it as well
    SI._vf_array_cmp = True


def _install_reflected_array_ops():
    """`ndarray OP S` (e.g. `control_times - start_time`, `... / dt` in Control.get_controls): whenever numpy
    hands the whole array to S's reflected operator (it did while S carried an __array_priority__), the
    operation is broadcast element-wise like numpy does for a Python scalar.  Run-time only."""
    if getattr(S, "_vf_array_rops", False):
        return
    import operator
    for name, op in (("__radd__", operator.add), ("__rsub__", operator.sub), ("__rmul__", operator.mul),
                     ("__rtruediv__", operator.truediv)):
        orig = getattr(S, name)

        def wrapped(self, o, _orig=orig, _op=op):
            if isinstance(o, np.ndarray) and o.shape != ():
                out = np.empty(o.shape, dtype=object)
                for idx in np.ndindex(*o.shape):
                    out[idx] = _op(o[idx], self)
                return out
            return _orig(self, o)
        wrapped.__name__ = name
        setattr(S, name, wrapped)
    S._vf_array_rops = True


_install_array_comparisons()
_install_reflected_array_ops()
TI = SI


def sym_int(inp, name, lo, hi):
    return inp.int(name, lo, hi)


def near_time(inp, name, k, start, dt, half=Fraction(1, 2)):
    """time whose nearest step is k:  start + dt*(k + e), -1/2 < e < 1/2 (ties excluded)"""
    e = inp.real(name + "_e", lo=-half, hi=half)
    inp.assume(e > -half)
    inp.assume(e < half)
    if inp.mode == "real":
        return float(start) + float(dt) * (k + e)
    return S.of(start) + S.of(dt) * (S.of(k) + e)


def as_int(x):
    """concrete python int of a (by now pinned) symbolic or concrete integer"""
    if isinstance(x, SI):
        return x.concretise()
    return int(x)


def all_of(conds):
    """conjunction of python bools / SB -> python bool or SB"""
    fs = []
    for c in conds:
        if isinstance(c, SB):
            fs.append(c.f)
        elif isinstance(c, z3.BoolRef):
            fs.append(c)
        elif not bool(c):
            return False
    if not fs:
        return True
    return SB(z3.And(*fs))


def any_of(conds):
    fs = []
    for c in conds:
        if isinstance(c, SB):
            fs.append(c.f)
        elif isinstance(c, z3.BoolRef):
            fs.append(c)
        elif bool(c):
            return True
    if not fs:
        return False
    return SB(z3.Or(*fs))


def is_nan_entry(v):
    """entry of a result array that is the python/numpy NaN (never a symbolic scalar)"""
    if isinstance(v, (S, SI)):
        return False
    try:
        c = complex(v)
    except Exception:  # noqa
        return False
    return c != c


class _IdxArr(np.ndarray):
    """`np.arange(n)` whose list index may contain symbolic ints: numpy converts a list of Python ints
    to an index array by calling `__index__` on every entry; it refuses objects of another class, so
    the conversion (bounded concretisation by the engine) is done here, then numpy indexes as usual."""

    def __getitem__(self, key):
        if isinstance(key, list) and any(isinstance(k, SI) for k in key):
            key = [k.__index__() if isinstance(k, SI) else k for k in key]
        r = np.ndarray.__getitem__(self, key)
        return r.view(np.ndarray) if isinstance(r, np.ndarray) else r

    def __array_wrap__(self, out, context=None, return_scalar=False):
        # results of arithmetic on the index grid are ordinary arrays
        r = np.asarray(out).view(np.ndarray)
        return r[()] if return_scalar else r


def p_arange(*a, **kw):
    """np.arange; symbolic int arguments are concretised (bounded, exhaustive) as numpy's own
    `__index__` conversion of Python ints would require"""
    a = [as_int(x) if isinstance(x, SI) else x for x in a]
    return np.arange(*a, **kw).view(_IdxArr)


def _push_aux_axioms():
    """vf.sym replaces a division by a symbolic divisor by a fresh quotient variable whose defining axiom
    (q*b == a, b != 0) is only added to the FINAL queries; branches taken right after a quotient was
    rounded (`index < 0 or index > max_step`) need it on the live path condition as well, otherwise
    infeasible paths are explored.  Defining axioms are always-true side conditions; adding them to the
    path condition changes no verdict.  (Suggested for vf.sym._feasible itself.)"""
    from . import sym as _sym
    if _sym.CTX is None or not hasattr(_sym, "div_axioms"):
        return
    have = {f.get_id() for f in _sym.CTX.pc if isinstance(f, z3.ExprRef)}
    for ax in _sym.div_axioms():
        if ax.get_id() not in have:
            _sym.CTX.pc.append(ax)


def _elementwise(fn, npfn):
    def f(x, *a, **kw):
        from .env import _is_sym
        if not _is_sym(x):
            return npfn(x, *a, **kw)
        _push_aux_axioms()
        if isinstance(x, np.ndarray):
            out = np.empty(x.shape, dtype=object)
            for idx in np.ndindex(*x.shape):
                out[idx] = fn(x[idx])
            return out
        return fn(x)
    return f


def time_np_overrides():
    """extra NpProxy overrides for modules that turn times into steps (a repair may use floor/trunc)"""
    from .env import sym_floor, sym_trunc, sym_round
    return {"arange": p_arange, "round": _elementwise(sym_round, np.round), "floor": _elementwise(sym_floor, np.floor),
            "trunc": _elementwise(sym_trunc, np.trunc), "rint": _elementwise(sym_round, np.rint)}
