"""In-memory stand-in for the part of `h5py` that oqupy/process_tensor.py uses (C16, C17).

What is modelled (the documented h5py contract, nothing of the HDF5 on-disk format):
  File(name, mode in {'r','w','x'})   'x' -> FileExistsError if present, 'r' -> FileNotFoundError
                                      if missing, 'w' truncates; read-only handles refuse writes
  f.attrs  mapping; numbers/bools come back as *numpy scalars* (np.bool_(True) is not True)
  f.create_dataset(name, shape, dtype, data=None, maxshape=None)   plain and variable-length
  f[name], name in f, f.keys(), f.close(), f.flush(), bool(f), f.filename, f.mode
  ds.shape, ds.dtype, ds.maxshape, len(ds), ds.resize(shape), ds[i], ds[i] = v, iteration,
  np.array(ds)
  vlen_dtype(base)
over a module-level dict `FILES` acting as the file system (plus `OS`, a stand-in for the
`os` module global of oqupy.process_tensor: `os.remove`, `os.path.exists`).

Datasets hold arbitrary Python objects: an object array (symbolic `S` scalars) is stored
as it is, element by element, where real h5py would convert to the dataset's dtype;
concrete numeric data is converted exactly as h5py does (so the NaN sentinel of
`_set_data_and_shape(None)` comes back as a complex128 array).

The stand-in is VALIDATED against the real h5py at the start of every run of the checks
that use it (`validate_against_real_h5py`): the same scripted operation sequence (the
one FileProcessTensor._create_file/_set_data_and_shape/_get_data_and_shape/_read_file/
close perform, plus the error cases) through both, observations compared.

`OpRecorder` numbers the mutating file operations performed through an h5py-like module
(this stand-in or the real h5py) and can stop the writer before operation k (crash model
of C17: exactly the effects of the operations completed before the crash, no close()).
"""
import errno
import os as _os
import weakref

import numpy as np


class StubLimit(BaseException):
    """the code under analysis used a feature the stand-in does not model -> harness error"""


FILES = {}        # file name -> _Image            (the file system)
_OPEN = []        # weak references to the open handles of this "process"


def reset():
    FILES.clear()
    del _OPEN[:]


def exists(name):
    return name in FILES


def _live_handles():
    return [h for h in (r() for r in _OPEN) if h is not None and h._is_open()]


def abandon_all():
    """the process holding the open handles dies: no close(), nothing else happens"""
    for h in _live_handles():
        h._dead = True
    del _OPEN[:]


def vlen_dtype(base):
    # identical to h5py.vlen_dtype: object dtype tagged with the base type
    return np.dtype("O", metadata={"vlen": np.dtype(base)})


def _is_vlen(dt):
    return dt.metadata is not None and "vlen" in dt.metadata


class _DsImage:
    def __init__(self, shape, dtype, maxshape):
        self.shape = tuple(int(s) for s in shape)
        self.dtype = dtype
        self.vlen = _is_vlen(dtype)
        self.base = np.dtype(dtype.metadata["vlen"]) if self.vlen else dtype
        self.maxshape = maxshape
        self.items = np.empty(self.shape, dtype=object)
        for idx in np.ndindex(*self.shape):
            self.items[idx] = self._fill()

    def _fill(self):
        if self.vlen:
            return np.array([], dtype=self.base)
        return self.base.type(0)


class _Image:
    def __init__(self):
        self.attrs = {}
        self.datasets = {}


def _to_base(value, base, what):
    """concrete numeric data -> dataset base type, as h5py/numpy conversion does;
    object arrays (symbolic scalars) are kept element by element"""
    arr = np.array(value) if not isinstance(value, np.ndarray) else value
    if arr.dtype == object:
        out = np.empty(arr.shape, dtype=object)
        for idx in np.ndindex(*arr.shape):
            out[idx] = arr[idx]
        return out
    with np.errstate(all="ignore"):
        import warnings
        with warnings.catch_warnings():
            warnings.simplefilter("ignore")
            return arr.astype(base)


class _Attrs:
    def __init__(self, handle):
        self._h = handle

    def _img(self):
        if not self._h._is_open():
            raise KeyError("Unable to synchronously open object (invalid identifier type to function)")
        return self._h._img

    def __getitem__(self, key):
        img = self._img()
        if key not in img.attrs:
            raise KeyError("Unable to synchronously open attribute (can't locate attribute: %r)" % key)
        v = img.attrs[key]
        # h5py hands numbers back as numpy scalars
        if isinstance(v, (bool, np.bool_)):
            return np.bool_(v)
        if isinstance(v, (int, np.integer)):
            return np.int64(v)
        if isinstance(v, (float, np.floating)):
            return np.float64(v)
        return v

    def __setitem__(self, key, value):
        img = self._img()
        if self._h._readonly:
            if key in img.attrs:
                raise KeyError("Unable to delete attribute (no write intent on file)")
            raise OSError("Unable to synchronously create attribute (no write intent on file)")
        if not isinstance(value, (str, bool, int, float, np.bool_, np.integer, np.floating)):
            raise StubLimit("attribute value of type %s not modelled" % type(value).__name__)
        img.attrs[key] = value

    def __contains__(self, key):
        return key in self._img().attrs

    def keys(self):
        return list(sorted(self._img().attrs))

    def __iter__(self):
        return iter(self.keys())

    def __len__(self):
        return len(self._img().attrs)


class Dataset:
    def __init__(self, handle, name):
        self._h = handle
        self._name = name

    def _d(self, exc=RuntimeError):
        if not self._h._is_open():
            raise exc("Unable to synchronously get dataspace (identifier is not of specified type)")
        return self._h._img.datasets[self._name]

    @property
    def shape(self):
        return self._d().shape

    @property
    def dtype(self):
        return self._d(ValueError).dtype

    @property
    def maxshape(self):
        d = self._d(ValueError)
        return d.shape if d.maxshape is None else tuple(d.maxshape)

    @property
    def name(self):
        return "/" + self._name

    def __len__(self):
        d = self._d()
        if not d.shape:
            raise TypeError("Attempt to take len() of scalar dataset")
        return d.shape[0]

    def resize(self, size, axis=None):
        d = self._d()
        if axis is not None:
            raise StubLimit("resize(axis=) not modelled")
        if d.maxshape is None:
            raise TypeError("Only chunked datasets can be resized")
        size = tuple(int(s) for s in (size if isinstance(size, (tuple, list)) else (size,)))
        if len(size) != len(d.shape):
            raise TypeError("New shape length (%d) must match dataset rank (%d)" % (len(size), len(d.shape)))
        if self._h._readonly:
            raise RuntimeError("Unable to synchronously set dataset extent (no write intent on file)")
        if len(size) != 1:
            raise StubLimit("resize of rank != 1 not modelled")
        if d.maxshape[0] is not None and size[0] > d.maxshape[0]:
            raise ValueError("Unable to synchronously set dataset extent (dimension cannot exceed the existing maximal size)")
        new = np.empty(size, dtype=object)
        for i in range(size[0]):
            new[i] = d.items[i] if i < d.shape[0] else d._fill()
        d.items = new
        d.shape = size

    def _index(self, i, d):
        if isinstance(i, tuple) and len(i) == 1:
            i = i[0]
        if isinstance(i, (bool, np.bool_)) or not isinstance(i, (int, np.integer)):
            raise StubLimit("dataset index %r not modelled (only integer indices of rank-1 datasets)" % (i,))
        if len(d.shape) != 1:
            raise StubLimit("integer index into a rank-%d dataset not modelled" % len(d.shape))
        n = d.shape[0]
        i = int(i)
        if i < 0:
            i += n
        if i < 0 or i >= n:
            raise IndexError("Index (%d) out of range for (0-%d)" % (i, n - 1) if n else "Index (%d) out of range for empty dimension" % i)
        return i

    def __getitem__(self, i):
        d = self._d()
        i = self._index(i, d)
        v = d.items[i]
        return v.copy() if isinstance(v, np.ndarray) else v

    def __setitem__(self, i, value):
        d = self._d()
        i = self._index(i, d)
        if d.vlen:
            arr = _to_base(value, d.base, "vlen")
            if arr.ndim != 1:
                raise TypeError("Can't broadcast %s -> ()" % (arr.shape,))
        else:
            arr = _to_base(value, d.base, "plain")
            if arr.ndim != 0:
                raise TypeError("Can't broadcast %s -> ()" % (arr.shape,))
            arr = arr[()]
        if self._h._readonly:
            raise OSError("Can't synchronously write data (no write intent on file)")
        d.items[i] = arr

    def __iter__(self):
        d = self._d()
        if not d.shape:
            raise TypeError("Can't iterate over a scalar dataset")
        for i in range(d.shape[0]):
            yield self[i]

    def __array__(self, dtype=None, copy=None):
        d = self._d(ValueError)
        sym = any(not isinstance(d.items[idx], (np.generic, int, float, complex)) for idx in np.ndindex(*d.shape)) and not d.vlen
        if d.vlen or sym:
            out = np.empty(d.shape, dtype=object)
            for idx in np.ndindex(*d.shape):
                out[idx] = d.items[idx]
            return out
        out = np.empty(d.shape, dtype=d.base)
        for idx in np.ndindex(*d.shape):
            out[idx] = d.items[idx]
        return out if dtype is None else out.astype(dtype)


class File:
    def __init__(self, name, mode="r", **kw):
        if kw:
            raise StubLimit("File keyword arguments %s not modelled" % sorted(kw))
        if not isinstance(name, str):
            raise StubLimit("file name of type %s not modelled" % type(name).__name__)
        if mode not in ("r", "w", "x"):
            raise StubLimit("File mode %r not modelled" % (mode,))
        self._name = name
        self._dead = False
        self._closed = True
        others = [h for h in _live_handles() if h._name == name]
        if others:
            # observed: a second read-only handle is fine; creating/truncating is refused
            if mode == "r":
                # observed: the new handle shares the already open file, including its
                # write intent (h5py reports mode 'r+' then)
                share_write = not all(h._readonly for h in others)
            elif mode == "w":
                raise OSError("Unable to synchronously create file (unable to truncate a file which is already open)")
            else:
                raise OSError("Unable to synchronously create file (file exists)")
        self._closed = False
        if mode == "r":
            if name not in FILES:
                raise FileNotFoundError(errno.ENOENT, "Unable to synchronously open file (unable to open file: name = %r, errno = 2, "
                                        "error message = 'No such file or directory', flags = 0, o_flags = 0)" % name)
            self._readonly = not (others and share_write)
        elif mode == "x":
            if name in FILES:
                raise FileExistsError(errno.EEXIST, "Unable to synchronously create file (unable to open file: name = %r, errno = 17, "
                                      "error message = 'File exists', flags = 15, o_flags = c2)" % name)
            FILES[name] = _Image()
            self._readonly = False
        else:
            FILES[name] = _Image()
            self._readonly = False
        self._img = FILES[name]
        _OPEN.append(weakref.ref(self))

    @property
    def attrs(self):
        return _Attrs(self)

    def __del__(self):
        # like h5py: the file is closed when the last reference to it is dropped
        try:
            self.close()
        except Exception:  # noqa
            pass

    def _is_open(self):
        return not (self._closed or self._dead)

    def _need_open(self, exc=ValueError, msg="Invalid location identifier (invalid location identifier)"):
        if not self._is_open():
            raise exc(msg)

    @property
    def filename(self):
        self._need_open()
        return self._name

    @property
    def mode(self):
        self._need_open()
        return "r" if self._readonly else "r+"

    def __bool__(self):
        return self._is_open()

    def create_dataset(self, name, shape=None, dtype=None, data=None, maxshape=None, **kw):
        if kw:
            raise StubLimit("create_dataset keyword arguments %s not modelled" % sorted(kw))
        self._need_open()
        if shape is None or dtype is None:
            raise StubLimit("create_dataset without shape/dtype not modelled")
        if isinstance(shape, (int, np.integer)):
            shape = (int(shape),)
        shape = tuple(int(s) for s in shape)
        dt = dtype if (isinstance(dtype, np.dtype) and dtype.metadata) else np.dtype(dtype)
        if self._readonly:
            raise ValueError("Unable to synchronously create dataset (no write intent on file)")
        if name in self._img.datasets:
            raise ValueError("Unable to synchronously create dataset (name already exists)")
        if maxshape is not None:
            maxshape = tuple(maxshape)
            if len(maxshape) != len(shape):
                raise ValueError("\"maxshape\" must have same rank as dataset shape")
        ds = _DsImage(shape, dt, maxshape)
        if data is not None:
            if ds.vlen:
                raise StubLimit("create_dataset(data=) for variable-length datasets not modelled")
            arr = np.array(data) if not isinstance(data, np.ndarray) else data
            if arr.shape != shape:
                if int(np.prod(arr.shape)) != int(np.prod(shape)):
                    raise ValueError("Shape tuple is incompatible with data")
                arr = arr.reshape(shape)
            if isinstance(data, np.ndarray) and arr.dtype != object and arr.dtype.kind != "c" and ds.base.kind == "c":
                # observed with h5py 3.16 / HDF5 2.0: the dataset is created, the write of a
                # real-typed ndarray into a complex dataset is refused
                self._img.datasets[name] = ds
                raise OSError("Can't synchronously write data (no appropriate function for conversion path)")
            conv = _to_base(arr, ds.base, "plain")
            for idx in np.ndindex(*shape):
                ds.items[idx] = conv[idx]
        self._img.datasets[name] = ds
        return Dataset(self, name)

    def __getitem__(self, name):
        self._need_open(KeyError, "Unable to synchronously open object (invalid identifier type to function)")
        if name not in self._img.datasets:
            raise KeyError("Unable to synchronously open object (object %r doesn't exist)" % name)
        return Dataset(self, name)

    def __contains__(self, name):
        return self._is_open() and name in self._img.datasets

    def keys(self):
        self._need_open()
        return list(sorted(self._img.datasets))

    def flush(self):
        self._need_open()

    def close(self):
        if self._dead:
            return
        self._closed = True
        for r in list(_OPEN):
            if r() is self or r() is None:
                _OPEN.remove(r)

    def __enter__(self):
        return self

    def __exit__(self, *a):
        self.close()


class _PathStub:
    @staticmethod
    def exists(name):
        return name in FILES

    @staticmethod
    def isfile(name):
        return name in FILES

    def __getattr__(self, n):
        return getattr(_os.path, n)


class _OsStub:
    """stand-in for the module global `os` of oqupy.process_tensor"""
    path = _PathStub()

    @staticmethod
    def remove(name):
        if name not in FILES:
            raise FileNotFoundError(errno.ENOENT, "No such file or directory", name)
        del FILES[name]

    unlink = remove

    def __getattr__(self, n):
        return getattr(_os, n)


class _Module:
    """what is installed as the module global `h5py` of oqupy.process_tensor"""
    File = File
    Dataset = Dataset
    vlen_dtype = staticmethod(vlen_dtype)
    __name__ = "h5stub"


MODULE = _Module()
OS = _OsStub()

# symbolic_env / patched keys that install the stand-in
ENV_EXTRA = {"oqupy.process_tensor.h5py": MODULE, "oqupy.process_tensor.os": OS}
STUB_TEXT = ("h5py.File/create_dataset/attrs/resize/vlen item access -> vf.h5stub in-memory stand-in "
             "(validated against the real h5py at the start of every run)",
             "os.remove/os.path of oqupy.process_tensor -> the stand-in's file-system dict")


# --------------------------------------------------------------------------------------
# crash model (C17): numbering of the mutating file operations
# --------------------------------------------------------------------------------------
class Crash(BaseException):
    """the writer process is killed here"""


DROP_ATTR = object()


class OpRecorder:
    """h5py-like module wrapper.  Every mutating file operation (create/truncate a file,
    set an attribute, create_dataset, resize, item assignment, close) performed through it
    gets the next index; `ops` is the recorded sequence.  With `crash_at = k` the writer is
    stopped *before* operation k: operations 0..k-1 have taken effect, nothing else ever
    does (a dead process performs no further operation, in particular no close()).
    With `fault` (a callable returning an exception instance) operation k is not performed
    but RAISES that exception instead (disk full, interrupt, out of memory): the writer is not
    dead, the exception unwinds through the real code's with/try/finally/except handlers and
    every file operation they perform (a close() in a finally) DOES take effect."""

    def __init__(self, h5, crash_at=None, on_crash=None, fault=None, attr_map=None):
        # attr_map: attribute name -> value written instead (a file written by another OQuPy
        # version), or DROP_ATTR: the attribute is never written (not counted as an operation)
        self.attr_map = dict(attr_map or {})
        self.h5 = h5
        self.crash_at = crash_at
        self.on_crash = on_crash
        self.fault = fault
        self.fired = False
        self.ops = []
        self.dead = False
        self.files = []

    def vlen_dtype(self, *a, **k):
        return self.h5.vlen_dtype(*a, **k)

    def _pre(self):
        if self.dead:
            raise Crash()
        if self.crash_at is not None and not self.fired and len(self.ops) == self.crash_at:
            self.fired = True
            if self.fault is not None:
                raise self.fault()
            self.dead = True
            if self.on_crash is not None:
                self.on_crash(self)
            raise Crash()

    def _post(self, desc):
        self.ops.append(desc)

    def File(self, name, mode="r", *a, **k):
        if mode == "r":
            if self.dead:
                raise Crash()
            return _PFile(self, self.h5.File(name, mode, *a, **k))
        self._pre()
        f = self.h5.File(name, mode, *a, **k)
        self._post(("open", mode))
        self.files.append(f)
        return _PFile(self, f)


class _PAttrs:
    def __init__(self, rec, attrs):
        self._r, self._a = rec, attrs

    def __getitem__(self, k):
        if self._r.dead:
            raise Crash()
        return self._a[k]

    def __setitem__(self, k, v):
        if k in self._r.attr_map:
            v = self._r.attr_map[k]
            if v is DROP_ATTR:
                if self._r.dead:
                    raise Crash()
                return
        self._r._pre()
        self._a[k] = v
        self._r._post(("attr", k, bool(v) if isinstance(v, (bool, np.bool_)) else None))

    def __contains__(self, k):
        return k in self._a

    def keys(self):
        return self._a.keys()

    def __iter__(self):
        return iter(self._a)


class _PFile:
    def __init__(self, rec, f):
        self._r, self._f = rec, f
        self.attrs = _PAttrs(rec, f.attrs)

    def create_dataset(self, name, *a, **k):
        self._r._pre()
        d = self._f.create_dataset(name, *a, **k)
        self._r._post(("create_dataset", name))
        return _PDs(self._r, d, name)

    def __getitem__(self, name):
        if self._r.dead:
            raise Crash()
        return _PDs(self._r, self._f[name], name)

    def __contains__(self, name):
        return name in self._f

    def close(self):
        self._r._pre()
        self._f.close()
        self._r._post(("close",))

    def __bool__(self):
        return bool(self._f)

    def __getattr__(self, n):
        return getattr(self._f, n)


class _PDs:
    def __init__(self, rec, d, name):
        self._r, self._d, self._n = rec, d, name

    @property
    def shape(self):
        if self._r.dead:
            raise Crash()
        return self._d.shape

    def resize(self, *a, **k):
        self._r._pre()
        self._d.resize(*a, **k)
        self._r._post(("resize", self._n, a[0] if a else None))

    def __setitem__(self, i, v):
        self._r._pre()
        self._d[i] = v
        self._r._post(("setitem", self._n, int(i) if isinstance(i, (int, np.integer)) else str(i)))

    def __getitem__(self, i):
        if self._r.dead:
            raise Crash()
        return self._d[i]

    def __iter__(self):
        return iter(self._d)

    def __len__(self):
        return len(self._d)

    def __array__(self, *a, **k):
        return np.asarray(self._d)

    def __getattr__(self, n):
        return getattr(self._d, n)


class InjectedDiskFull(OSError):
    """what h5py raises when a write hits a full disk"""

    def __init__(self):
        OSError.__init__(self, errno.ENOSPC, "Can't synchronously write data (file write failed: No space left on device)")


class InjectedInterrupt(KeyboardInterrupt):
    """SIGINT delivered while the file operation runs"""


class InjectedMemoryError(MemoryError):
    pass


FAULTS = {"OSError": InjectedDiskFull, "KeyboardInterrupt": InjectedInterrupt, "MemoryError": InjectedMemoryError}


def flush_open(rec):
    for f in rec.files:
        try:
            if f:
                f.flush()
        except Exception:  # noqa
            pass


def real_crash(rec):
    """on_crash for a writer running on the REAL h5py in a forked child: what has been
    completed reaches the disk (flush), then the process is killed without close()"""
    for f in rec.files:
        try:
            f.flush()
        except Exception:  # noqa
            pass
    _os._exit(17)


def stub_crash(rec):
    abandon_all()


def reset_index(ops):
    """index of the operation that marks the end of the writing phase of a COMPLETE run: the
    last reset of attrs['writing'] to a false value after it was set (a reset that is followed
    by further tensor writes does not end the writing phase), else the close()"""
    seen_true = False
    last = None
    for i, op in enumerate(ops):
        if op[0] == "attr" and op[1] == "writing":
            if op[2]:
                seen_true = True
            elif seen_true:
                last = i
    if last is not None:
        return last
    for i, op in enumerate(ops):
        if op[0] == "close":
            return i
    return len(ops)


# --------------------------------------------------------------------------------------
# validation against the real h5py
# --------------------------------------------------------------------------------------
def _norm(x):
    if isinstance(x, np.ndarray):
        if x.dtype == object:
            return ("objarray", x.shape, [_norm(v) for v in x.reshape(-1)])
        return ("ndarray", x.dtype.str, x.shape, [_norm(v) for v in x.reshape(-1).tolist()])
    if isinstance(x, np.generic):
        return (type(x).__name__, _norm(x.item()))
    if isinstance(x, complex):
        return ("c", _norm(x.real), _norm(x.imag))
    if isinstance(x, float):
        return "nan" if x != x else x
    if isinstance(x, (list, tuple)):
        return [_norm(v) for v in x]
    if isinstance(x, np.dtype):
        return ("dtype", x.str, dict(x.metadata).__repr__() if x.metadata else None)
    return x


def operation_script(h5, remove, exists, d, ptm):
    """The scripted sequence.  `h5` is an h5py-like module, `d` a directory prefix.
    Returns the list of observations."""
    obs = []

    def rec(label, fn):
        try:
            obs.append((label, _norm(fn())))
        except StubLimit:
            raise
        except Exception as e:  # noqa
            obs.append((label, ("raises", type(e).__name__)))

    fn = d + "/a.hdf5"
    fn2 = d + "/b.hdf5"
    rec("exists before", lambda: exists(fn))
    rec("open r missing", lambda: h5.File(fn, "r"))
    f = h5.File(fn, "x")
    rec("exists after x", lambda: exists(fn))
    rec("bool(open file)", lambda: bool(f))
    rec("mode", lambda: f.mode)
    rec("filename", lambda: f.filename == fn)
    # -- _create_file ----------------------------------------------------------------
    f.attrs["oqupy_version"] = "0.5.0"
    f.attrs["name"] = "nm"
    f.attrs["description"] = "ds"
    f.attrs["writing"] = True
    rec("attr str", lambda: (f.attrs["name"], type(f.attrs["name"]).__name__))
    rec("attr bool", lambda: (f.attrs["writing"], type(f.attrs["writing"]).__name__))
    rec("attr bool is True", lambda: f.attrs["writing"] is True)
    rec("attr bool == True", lambda: bool(f.attrs["writing"] == True))  # noqa: E712
    rec("attr bool truthy", lambda: bool(f.attrs["writing"]))
    rec("attr != str", lambda: bool(f.attrs["oqupy_version"] != "0.5.0"))
    rec("attr missing", lambda: f.attrs["nope"])
    rec("attr in", lambda: ("name" in f.attrs, "nope" in f.attrs))
    f.attrs["name"] = "nm2"
    rec("attr overwritten", lambda: f.attrs["name"])
    rec("attr keys", lambda: sorted(f.attrs.keys()))
    f.attrs["num"] = 3
    f.attrs["flt"] = 0.5
    rec("attr int", lambda: (f.attrs["num"], type(f.attrs["num"]).__name__))
    rec("attr float", lambda: (f.attrs["flt"], type(f.attrs["flt"]).__name__))
    data_type = h5.vlen_dtype(np.dtype("complex128"))
    shape_type = h5.vlen_dtype(np.dtype("i"))
    rec("vlen dtype", lambda: (data_type, shape_type))
    hs = f.create_dataset("hs_dim", (1,), dtype="i", data=[2])
    rec("hs_dim", lambda: (hs.shape, hs[0], int(hs[0]), hs.dtype, len(hs), hs.maxshape))
    dtn = f.create_dataset("dt", (1,), dtype="float64", data=[np.nan])
    rec("dt nan", lambda: (dtn[0], np.array(dtn), bool(ptm._is_hdf5_none(dtn))))
    dtv = f.create_dataset("dt2", (1,), dtype="float64", data=[0.1])
    rec("dt val", lambda: (dtv[0], np.array(dtv), bool(ptm._is_hdf5_none(dtv))))
    tn_ = f.create_dataset("transform_none", (1,), dtype="complex128", data=[np.nan])
    rec("transform none", lambda: (tn_[0], np.array(tn_), bool(ptm._is_hdf5_none(np.array(tn_)))))
    T = (np.arange(16).reshape(4, 4) * (1 + 0.5j)).astype(complex)
    ti = f.create_dataset("transform_in", T.shape, dtype="complex128", data=T)
    rec("transform", lambda: (ti.shape, np.array(ti), ti.dtype, bool(ptm._is_hdf5_none(np.array(ti)))))
    rec("create int list into complex", lambda: np.array(f.create_dataset("ok1", (2,), dtype="complex128", data=[1, 2])))
    rec("create int array into complex", lambda: f.create_dataset("bad1", (2,), dtype="complex128", data=np.array([1, 2])))
    rec("create float array into complex", lambda: np.array(f.create_dataset("ok2", (2,), dtype="complex128", data=np.array([1.5, 2]))))
    rec("create shape mismatch", lambda: f.create_dataset("bad2", (1,), dtype="float64", data=[1.0, 2.0]))
    rec("create duplicate", lambda: f.create_dataset("dt", (1,), dtype="float64", data=[1.0]))
    i_data = f.create_dataset("initial_tensor_data", (1,), dtype=data_type)
    i_shape = f.create_dataset("initial_tensor_shape", (1,), dtype=shape_type)
    m_data = f.create_dataset("mpo_tensors_data", (0,), dtype=data_type, maxshape=(None,))
    m_shape = f.create_dataset("mpo_tensors_shape", (0,), dtype=shape_type, maxshape=(None,))
    c_data = f.create_dataset("cap_tensors_data", (0,), dtype=data_type, maxshape=(None,))
    c_shape = f.create_dataset("cap_tensors_shape", (0,), dtype=shape_type, maxshape=(None,))
    rec("vlen fresh", lambda: (i_data.shape, i_data[0], i_shape[0], m_data.shape, m_data.maxshape, i_data.maxshape,
                               len(m_data), i_data.dtype, m_shape.dtype))
    rec("iterate empty", lambda: list(m_shape))
    rec("index empty", lambda: m_shape[0])
    rec("index -1 empty", lambda: m_shape[-1])
    rec("resize fixed", lambda: i_data.resize((2,)))
    rec("resize rank", lambda: m_data.resize((2, 2)))
    rec("keys", lambda: sorted(f.keys()))
    rec("contains", lambda: ("dt" in f, "nope" in f))
    rec("missing dataset", lambda: f["nope"])
    # -- _set_data_and_shape / _get_data_and_shape (the REAL oqupy functions) -----------
    ptm._set_data_and_shape(0, i_data, i_shape, None)
    rec("initial none raw", lambda: (i_data[0], i_shape[0]))
    rec("initial none", lambda: ptm._get_data_and_shape(0, i_data, i_shape))
    M2 = (np.arange(2 * 1 * 4).reshape(2, 1, 4) * (0.5 - 1j)).astype(complex)
    M0 = (np.arange(1 * 2 * 4 * 4).reshape(1, 2, 4, 4) + 0.25j).astype(complex)
    ptm._set_data_and_shape(2, m_data, m_shape, M2)            # written from the back (PT-TEMPO order)
    rec("after resize", lambda: (m_data.shape, m_shape.shape, len(m_shape)))
    rec("unwritten item", lambda: (m_data[0], m_shape[0], m_data[1], m_shape[1]))
    rec("get unwritten", lambda: ptm._get_data_and_shape(0, m_data, m_shape))
    rec("get written", lambda: ptm._get_data_and_shape(2, m_data, m_shape))
    rec("get out of range", lambda: ptm._get_data_and_shape(3, m_data, m_shape))
    rec("raw out of range", lambda: m_shape[3])
    rec("negative index", lambda: (m_shape[-1], m_shape[-1][1], type(m_shape[2][0]).__name__))
    ptm._set_data_and_shape(0, m_data, m_shape, M0)
    ptm._set_data_and_shape(1, m_data, m_shape, M0[0, :, :, :1].reshape(2, 4, 1)[:, :2, :].copy())
    rec("iterate shapes", lambda: [s for s in m_shape])
    rec("get 0", lambda: ptm._get_data_and_shape(0, m_data, m_shape))
    rec("get 1", lambda: ptm._get_data_and_shape(1, m_data, m_shape))
    ptm._set_data_and_shape(0, m_data, m_shape, M2)            # overwrite an entry with another shape
    rec("get 0 overwritten", lambda: ptm._get_data_and_shape(0, m_data, m_shape))
    ptm._set_data_and_shape(1, c_data, c_shape, np.array([0.5 + 0j, 2.0]))
    ptm._set_data_and_shape(0, c_data, c_shape, np.array([1.0 + 0j]))
    rec("caps", lambda: [ptm._get_data_and_shape(k, c_data, c_shape) for k in range(2)])
    rec("vlen set float", lambda: (c_data.__setitem__(0, np.array([1.5, np.nan])), c_data[0])[1])
    rec("vlen set int", lambda: (c_data.__setitem__(0, np.array([1, 2])), c_data[0])[1])
    rec("vlen set list", lambda: (c_data.__setitem__(0, [1.0, 2.5]), c_data[0])[1])
    rec("vlen set 2d", lambda: c_data.__setitem__(0, np.ones((2, 2), dtype=complex)))
    rec("vlen set empty", lambda: (c_data.__setitem__(0, np.array([], dtype=complex)), c_data[0])[1])
    rec("shape set tuple", lambda: (c_shape.__setitem__(0, (3, 1, 4)), c_shape[0])[1])
    rec("shape set empty tuple", lambda: (c_shape.__setitem__(0, ()), c_shape[0])[1])
    rec("shape set floats", lambda: (c_shape.__setitem__(0, (1.5,)), c_shape[0])[1])
    c_data.resize((1,))
    c_shape.resize((1,))
    rec("shrunk", lambda: (c_data.shape, c_shape.shape))
    c_data.resize((3,))
    rec("regrown", lambda: (c_data.shape, c_data[1], c_data[2]))
    f.flush()
    # -- close ----------------------------------------------------------------------
    rec("writing is True before close", lambda: f.attrs["writing"] is True)
    f.attrs["writing"] = False
    rec("attr false", lambda: (f.attrs["writing"], type(f.attrs["writing"]).__name__, f.attrs["writing"] is False,
                               bool(f.attrs["writing"])))
    f.attrs["writing"] = True
    f.close()
    rec("bool(closed file)", lambda: bool(f))
    rec("closed attrs get", lambda: f.attrs["writing"])
    rec("closed attrs set", lambda: f.attrs.__setitem__("writing", False))
    rec("closed ds shape", lambda: m_shape.shape)
    rec("closed ds getitem", lambda: m_shape[0])
    rec("closed ds setitem", lambda: m_shape.__setitem__(0, (1,)))
    rec("closed getitem", lambda: f["dt"])
    rec("closed create", lambda: f.create_dataset("zz", (1,), dtype="i"))
    rec("double close", lambda: f.close())
    rec("exists after close", lambda: exists(fn))
    # -- modes on an existing file ----------------------------------------------------
    rec("open x existing", lambda: h5.File(fn, "x"))
    g = h5.File(fn, "r")
    rec("r mode", lambda: g.mode)
    # -- _read_file ---------------------------------------------------------------------
    rec("r attrs", lambda: (g.attrs["oqupy_version"], g.attrs["name"], g.attrs["description"], g.attrs["writing"],
                            type(g.attrs["writing"]).__name__, g.attrs["writing"] is True))
    rec("r hs_dim", lambda: int(g["hs_dim"][0]))
    rec("r dt", lambda: (bool(ptm._is_hdf5_none(g["dt"])), bool(ptm._is_hdf5_none(g["dt2"])), g["dt2"][0]))
    rec("r transforms", lambda: (np.array(g["transform_in"]), bool(ptm._is_hdf5_none(np.array(g["transform_none"])))))
    rm_d, rm_s = g["mpo_tensors_data"], g["mpo_tensors_shape"]
    rec("r len", lambda: rm_s.shape[0])
    rec("r mpos", lambda: [ptm._get_data_and_shape(k, rm_d, rm_s) for k in range(3)])
    rec("r bond dims", lambda: [s[0] for s in rm_s] + [rm_s[-1][1]])
    rec("r initial", lambda: ptm._get_data_and_shape(0, g["initial_tensor_data"], g["initial_tensor_shape"]))
    rec("r cap", lambda: ptm._get_data_and_shape(0, g["cap_tensors_data"], g["cap_tensors_shape"]))
    rec("r attr set existing", lambda: g.attrs.__setitem__("writing", False))
    rec("r attr set new", lambda: g.attrs.__setitem__("fresh", 1))
    rec("r ds set", lambda: rm_s.__setitem__(0, (1,)))
    rec("r resize", lambda: rm_s.resize((5,)))
    rec("r create", lambda: g.create_dataset("zz", (1,), dtype="i"))
    rec("r still intact", lambda: (g.attrs["writing"], rm_s.shape))
    g2 = h5.File(fn, "r")
    rec("second read-only handle", lambda: (g2.attrs["name"], g2["mpo_tensors_shape"].shape))
    rec("w while open r", lambda: h5.File(fn, "w"))
    rec("still intact after refused w", lambda: (g.attrs["name"], rm_s.shape))
    g2.close()
    g.close()
    w0 = h5.File(fn, "w")
    w0.attrs["name"] = "fresh"
    r0 = h5.File(fn, "r")
    rec("r while open for writing shares the file", lambda: (r0.mode, r0.attrs["name"], sorted(r0.keys())))
    r0.close()
    rec("writer survives close of the sharing handle", lambda: (bool(w0), w0.attrs["name"]))
    w0.close()
    rec("leaked read handle", lambda: h5.File(fn, "r").attrs["name"])      # handle dropped, not closed
    # -- truncation / removal -------------------------------------------------------------
    w = h5.File(fn, "w")
    rec("w truncates", lambda: (sorted(w.keys()), sorted(w.attrs.keys())))
    w.close()
    rec("remove", lambda: remove(fn))
    rec("exists after remove", lambda: exists(fn))
    rec("remove missing", lambda: remove(fn))
    rec("open r after remove", lambda: h5.File(fn, "r"))
    w2 = h5.File(fn2, "w")
    rec("w creates", lambda: exists(fn2))
    w2.close()
    remove(fn2)
    return obs


def validate_against_real_h5py(verbose=False):
    """-> list of disagreement descriptions (empty = the stand-in reproduces the real h5py
    on the scripted sequence)."""
    import shutil
    import tempfile
    import h5py
    import oqupy.process_tensor as ptm
    d = tempfile.mkdtemp(prefix="vf_h5stub_")
    try:
        real = operation_script(h5py, _os.remove, _os.path.exists, d, ptm)
    finally:
        shutil.rmtree(d, ignore_errors=True)
    reset()
    try:
        stub = operation_script(MODULE, OS.remove, OS.path.exists, "/virtual", ptm)
    finally:
        reset()
    diffs = []
    if len(real) != len(stub):
        diffs.append("number of observations differs: real %d, stand-in %d" % (len(real), len(stub)))
    for (la, a), (lb, b) in zip(real, stub):
        if la != lb or repr(a) != repr(b):
            diffs.append("%s: real h5py %r / stand-in %r" % (la, a, b))
    if verbose:
        for l, a in real:
            print("  ", l, "->", repr(a)[:160])
    return diffs, len(real)


def validation_result(case_id="V0/h5stub_vs_real_h5py"):
    """result dict (shape of core.execute_case) for core.finish / run_property(extra_results=)"""
    import time
    import traceback
    t = time.time()
    res = {"case": case_id, "bounds": {"script": "create/set/get/read/close/modes/remove"}, "queries": [], "violations": [],
           "inconclusive": [], "errors": [], "paths": 0, "functions": [], "twins": [], "validated": 0, "solver_s": 0.0,
           "stubs": list(STUB_TEXT), "assumptions": [], "samples": []}
    try:
        diffs, n = validate_against_real_h5py()
        for dd in diffs[:10]:
            res["errors"].append("stand-in disagrees with the real h5py: " + dd[:500])
        res["validated"] = n
    except BaseException as e:  # noqa
        res["errors"].append("stand-in validation failed to run: %s: %s\n%s" % (type(e).__name__, e, traceback.format_exc()[-800:]))
    res["wall_s"] = round(time.time() - t, 2)
    return res
