"""driver: python -m vf.run C07 --tier quick"""
import argparse
import importlib
import os
import sys

from . import core


def main():
    ap = argparse.ArgumentParser()
    ap.add_argument("prop")
    ap.add_argument("--tier", default=os.environ.get("VERIF_TIER", "quick"))
    ap.add_argument("--replay")
    ap.add_argument("--only", action="append")
    ap.add_argument("--jobs", type=int)
    a = ap.parse_args()
    seed = int(os.environ.get("VERIF_SEED", "0") or 0)
    if a.replay:
        sys.exit(core.replay_file(a.replay))
    modname = "checks." + a.prop.lower()
    mod = importlib.import_module(modname)
    if hasattr(mod, "main"):
        sys.exit(mod.main(a.tier, seed, a))
    sys.exit(core.run_property(a.prop, modname, a.tier, seed, jobs=a.jobs, only=a.only))


if __name__ == "__main__":
    main()
