"""E2 `fpx`: twin-encoded floating-point scalars (DESIGN 2.2).

A scalar `SF` carries TWO encodings of the same double at once
  (a) `.fp`  a z3 FP(11,53) term with exact IEEE-754 semantics (RNE for + - * /,
             RTZ for int(), fp.roundToIntegral for round/floor/ceil), and
  (b) `.re`  a z3 Real term in the standard rounding-error model
             fl(x op y) = (x op y)(1 + d) [+ e for * and /],  |d| <= 2^-53, |e| <= 2^-1074
             (d, e fresh per operation, bounds pushed onto the path condition).
`SFI` is the integer twin (32-bit signed bit-vector | z3 Int), `FB` the boolean twin.
Branching on an `FB` forks the path in the error model (which over-approximates the
IEEE behaviour inside the declared magnitude ranges) and records the FP twin of the
decision, so every explored path has a real-arithmetic path condition (`sym.CTX.pc`)
and a bit-precise one (`sym.CTX.fp_pc`).

Verdicts (execute_fp_case):
  * `unsat` of  pc_re AND NOT ob.re           -> the obligation HOLDS for all doubles in range
  * `sat` there proves nothing; it triggers the bit-precise query  pc_fp AND NOT ob.fp,
    tried on a ladder of instances (e.g. start = 0; m <= 15) because full-width QF_BVFP with
    three free doubles does not finish;  a model is turned into `float.fromhex` inputs and
    replayed on the untouched real code before it is reported.
  * nothing found on the FP side -> inconclusive (exit 2), never success.
"""
import math
import random
import struct
import time
import traceback
from fractions import Fraction

import numpy as np
import z3

from . import sym
from . import env as _env
from .sym import S, SI, SB

F64 = z3.Float64()
RNE, RTZ, RTP, RTN = z3.RNE(), z3.RTZ(), z3.RTP(), z3.RTN()
BV32 = z3.BitVecSort(32)
U = Fraction(1, 2 ** 53)
ETA = Fraction(1, 2 ** 1074)
_U, _ETA = z3.RealVal(str(U)), z3.RealVal(str(ETA))


# --------------------------------------------------------------------------
# per-path state (lives on the sym.CTX object of the current path)
# --------------------------------------------------------------------------
def _ctx():
    c = sym.CTX
    if c is None:
        raise sym.SymbolicBranch("fpx value used outside explore()")
    if not hasattr(c, "fp_pc"):
        c.fp_pc = []
        c.nfresh = 0
    return c


def _fresh(prefix, sort="real"):
    c = _ctx()
    c.nfresh += 1
    n = "%s!%d" % (prefix, c.nfresh)
    return z3.Real(n) if sort == "real" else z3.Int(n)


def assume_twin(fp=None, re=None):
    c = _ctx()
    if fp is not None:
        c.fp_pc.append(fp)
    if re is not None:
        c.pc.append(re)


def _rq(x):
    """exact rational value of a python number as z3 Real"""
    return z3.RealVal(str(Fraction(x)))


# --------------------------------------------------------------------------
# booleans
# --------------------------------------------------------------------------
class FB:
    __slots__ = ("fp", "re")

    def __init__(self, fp, re):
        self.fp, self.re = fp, re

    def __bool__(self):
        r = z3.simplify(self.re)
        if z3.is_true(r):
            _ctx().fp_pc.append(self.fp)
            return True
        if z3.is_false(r):
            _ctx().fp_pc.append(z3.Not(self.fp))
            return False
        v = sym.decide([(self.re, True), (z3.Not(self.re), False)])
        _ctx().fp_pc.append(self.fp if v else z3.Not(self.fp))
        return v

    def __and__(self, o):
        o = tofb(o)
        return FB(z3.And(self.fp, o.fp), z3.And(self.re, o.re))
    __rand__ = __and__

    def __or__(self, o):
        o = tofb(o)
        return FB(z3.Or(self.fp, o.fp), z3.Or(self.re, o.re))
    __ror__ = __or__

    def __invert__(self):
        return FB(z3.Not(self.fp), z3.Not(self.re))

    def __repr__(self):
        return "FB(%s | %s)" % (self.fp, self.re)


def tofb(x):
    if isinstance(x, FB):
        return x
    if isinstance(x, SB):
        return FB(x.f, x.f)
    b = z3.BoolVal(bool(x))
    return FB(b, b)


def all_of(xs):
    xs = [tofb(x) for x in xs]
    return FB(z3.And(*[x.fp for x in xs]) if xs else z3.BoolVal(True), z3.And(*[x.re for x in xs]) if xs else z3.BoolVal(True))


# --------------------------------------------------------------------------
# integers
# --------------------------------------------------------------------------
class SFI:
    """integer twin: `.bv` 32-bit signed vector, `.nb` optional narrow unsigned vector it was
    zero-extended from (cheaper int->float conversion), `.re` z3 Int term"""
    __slots__ = ("bv", "nb", "re", "lo", "hi")
    __array_priority__ = 2000

    def __init__(self, bv, re, lo=-64, hi=64, nb=None):
        self.bv, self.re, self.lo, self.hi, self.nb = bv, re, lo, hi, nb

    @staticmethod
    def of(x):
        if isinstance(x, SFI):
            return x
        if isinstance(x, (bool, np.bool_)):
            x = int(x)
        if isinstance(x, (int, np.integer)):
            return SFI(z3.BitVecVal(int(x), 32), z3.IntVal(int(x)), int(x), int(x))
        raise TypeError(type(x))

    def _isnum(self, o):
        return isinstance(o, (SFI, int, np.integer)) and not isinstance(o, bool)

    def __add__(s, o):
        if s._isnum(o):
            o = SFI.of(o)
            return SFI(s.bv + o.bv, s.re + o.re, s.lo + o.lo, s.hi + o.hi)
        if isinstance(o, (SF, float)):
            return to_float(s) + o
        return NotImplemented
    __radd__ = __add__

    def __sub__(s, o):
        if s._isnum(o):
            o = SFI.of(o)
            return SFI(s.bv - o.bv, s.re - o.re, s.lo - o.hi, s.hi - o.lo)
        if isinstance(o, (SF, float)):
            return to_float(s) - o
        return NotImplemented

    def __rsub__(s, o):
        if s._isnum(o):
            return SFI.of(o) - s
        if isinstance(o, (SF, float)):
            return o - to_float(s)
        return NotImplemented

    def __mul__(s, o):
        if s._isnum(o):
            o = SFI.of(o)
            b = [s.lo * o.lo, s.lo * o.hi, s.hi * o.lo, s.hi * o.hi]
            return SFI(s.bv * o.bv, s.re * o.re, min(b), max(b))
        if isinstance(o, (SF, float)):
            return to_float(s) * o
        return NotImplemented
    __rmul__ = __mul__

    def __truediv__(s, o):
        return to_float(s) / o

    def __rtruediv__(s, o):
        return o / to_float(s)

    def __neg__(s):
        return SFI(-s.bv, -s.re, -s.hi, -s.lo)

    def __pos__(s):
        return s

    def __lt__(s, o):
        if s._isnum(o):
            o = SFI.of(o)
            return FB(s.bv < o.bv, s.re < o.re)
        return to_float(s) < o

    def __le__(s, o):
        if s._isnum(o):
            o = SFI.of(o)
            return FB(s.bv <= o.bv, s.re <= o.re)
        return to_float(s) <= o

    def __gt__(s, o):
        if s._isnum(o):
            o = SFI.of(o)
            return FB(s.bv > o.bv, s.re > o.re)
        return to_float(s) > o

    def __ge__(s, o):
        if s._isnum(o):
            o = SFI.of(o)
            return FB(s.bv >= o.bv, s.re >= o.re)
        return to_float(s) >= o

    def __eq__(s, o):
        if o is None:
            return False
        if s._isnum(o):
            o = SFI.of(o)
            return FB(s.bv == o.bv, s.re == o.re)
        if isinstance(o, (SF, float)):
            return to_float(s) == o
        return False

    def __ne__(s, o):
        r = s.__eq__(o)
        return ~r if isinstance(r, FB) else (not r)

    def concretise(s):
        e = z3.simplify(s.re)
        if z3.is_int_value(e):
            return e.as_long()
        v = sym.decide([(s.re == k, k) for k in range(s.lo, s.hi + 1)])
        _ctx().fp_pc.append(s.bv == z3.BitVecVal(v, 32))
        return v

    __index__ = __int__ = concretise

    def __hash__(s):
        return hash(s.concretise())

    def __repr__(s):
        return "SFI(%s | %s)" % (z3.simplify(s.bv), s.re)


# --------------------------------------------------------------------------
# doubles
# --------------------------------------------------------------------------
class SF:
    """double twin; `.ri` is a z3 Int term when the value is known to be integral
    (result of round/floor/ceil or of an int->float conversion)"""
    __slots__ = ("fp", "re", "ri", "c")
    __array_priority__ = 2000

    def __init__(self, fp, re, ri=None, c=None):
        self.fp, self.re, self.ri, self.c = fp, re, ri, c

    @staticmethod
    def const(x):
        x = float(x)
        if x != x or x in (float("inf"), float("-inf")):
            raise ValueError("non-finite constant %r" % x)
        return SF(z3.FPVal(x, F64), _rq(x), None, x)

    @staticmethod
    def of(x):
        if isinstance(x, SF):
            return x
        if isinstance(x, SFI):
            return to_float(x)
        if isinstance(x, (bool, np.bool_)):
            x = int(x)
        if isinstance(x, (int, float, np.integer, np.floating)):
            return SF.const(x)
        if isinstance(x, np.ndarray) and x.shape == ():
            return SF.of(x.item())
        raise TypeError(type(x))

    def _op(self, o, name, swap=False):
        if isinstance(o, np.ndarray) and o.shape != ():
            return NotImplemented
        try:
            o = SF.of(o)
        except TypeError:
            return NotImplemented
        a, b = (o, self) if swap else (self, o)
        if a.c is not None and b.c is not None:
            return SF.const({"add": a.c + b.c, "sub": a.c - b.c, "mul": a.c * b.c, "div": a.c / b.c}[name])
        if name == "add":
            fp, ex = z3.fpAdd(RNE, a.fp, b.fp), a.re + b.re
        elif name == "sub":
            fp, ex = z3.fpSub(RNE, a.fp, b.fp), a.re - b.re
        elif name == "mul":
            fp, ex = z3.fpMul(RNE, a.fp, b.fp), a.re * b.re
        else:
            fp, ex = z3.fpDiv(RNE, a.fp, b.fp), a.re / b.re
        d = _fresh("d")
        sym.assume(z3.And(d >= -_U, d <= _U))
        re = ex * (1 + d)
        if name in ("mul", "div"):           # gradual underflow: absolute error term
            e = _fresh("e")
            sym.assume(z3.And(e >= -_ETA, e <= _ETA))
            re = re + e
        return SF(fp, re)

    def __add__(s, o):
        return s._op(o, "add")

    def __radd__(s, o):
        return s._op(o, "add", True)

    def __sub__(s, o):
        return s._op(o, "sub")

    def __rsub__(s, o):
        return s._op(o, "sub", True)

    def __mul__(s, o):
        return s._op(o, "mul")

    def __rmul__(s, o):
        return s._op(o, "mul", True)

    def __truediv__(s, o):
        return s._op(o, "div")

    def __rtruediv__(s, o):
        return s._op(o, "div", True)

    def __neg__(s):
        return SF(z3.fpNeg(s.fp), -s.re, None if s.ri is None else -s.ri, None if s.c is None else -s.c)

    def __pos__(s):
        return s

    def __abs__(s):
        return SF(z3.fpAbs(s.fp), z3.If(s.re >= 0, s.re, -s.re))

    def _cmp(s, o, ffp, fre):
        try:
            o = SF.of(o)
        except TypeError:
            return NotImplemented
        return FB(ffp(s.fp, o.fp), fre(s.re, o.re))

    def __lt__(s, o):
        return s._cmp(o, z3.fpLT, lambda a, b: a < b)

    def __le__(s, o):
        return s._cmp(o, z3.fpLEQ, lambda a, b: a <= b)

    def __gt__(s, o):
        return s._cmp(o, z3.fpGT, lambda a, b: a > b)

    def __ge__(s, o):
        return s._cmp(o, z3.fpGEQ, lambda a, b: a >= b)

    def __eq__(s, o):
        if o is None:
            return False
        r = s._cmp(o, z3.fpEQ, lambda a, b: a == b)
        return False if r is NotImplemented else r

    def __ne__(s, o):
        r = s.__eq__(o)
        return ~r if isinstance(r, FB) else (not r)

    def __hash__(s):
        return id(s)

    def __float__(s):
        if s.c is not None:
            return s.c
        raise sym.SymbolicBranch("float() of a symbolic double (shadow `float` in the module)")

    def __repr__(s):
        return "SF(%s)" % (s.c if s.c is not None else z3.simplify(s.re))


def to_float(x):
    """int -> float conversion (exact for |x| < 2^53)"""
    if isinstance(x, SF):
        return x
    if isinstance(x, SFI):
        e = z3.simplify(x.re)
        if z3.is_int_value(e):
            return SF.const(e.as_long())
        fp = z3.fpUnsignedToFP(RNE, x.nb, F64) if x.nb is not None else z3.fpSignedToFP(RNE, x.bv, F64)
        return SF(fp, z3.ToReal(x.re), ri=x.re)
    return SF.const(x)


def _to_integral(x, mode):
    """np.round (half-even) / np.floor / np.ceil: float -> integral float"""
    x = SF.of(x)
    if x.c is not None:
        return SF.const({"round": np.round, "floor": np.floor, "ceil": np.ceil}[mode](x.c))
    rm = {"round": RNE, "floor": RTN, "ceil": RTP}[mode]
    fp = z3.fpRoundToIntegral(rm, x.fp)
    if x.ri is not None:
        return SF(fp, x.re, ri=x.ri)
    n = _fresh({"round": "rnd", "floor": "flr", "ceil": "cei"}[mode], "int")
    nr = z3.ToReal(n)
    half = z3.RealVal("1/2")
    if mode == "round":       # ties may go either way in the model (over-approximation)
        sym.assume(z3.And(nr - half <= x.re, x.re <= nr + half))
    elif mode == "floor":
        sym.assume(z3.And(nr <= x.re, x.re < nr + 1))
    else:
        sym.assume(z3.And(nr - 1 < x.re, x.re <= nr))
    return SF(fp, nr, ri=n)


def fp_trunc(x):
    """int(x): truncation towards zero (RTZ)"""
    x = SF.of(x)
    if x.c is not None:
        return SFI.of(int(x.c))
    bv = z3.fpToSBV(RTZ, x.fp, BV32)
    if x.ri is not None:
        return SFI(bv, x.ri, -2 ** 30, 2 ** 30)
    n = _fresh("trc", "int")
    nr = z3.ToReal(n)
    sym.assume(z3.Or(z3.And(x.re >= 0, nr <= x.re, x.re < nr + 1), z3.And(x.re < 0, nr - 1 < x.re, x.re <= nr)))
    return SFI(bv, n, -2 ** 30, 2 ** 30)


# --------------------------------------------------------------------------
# builtin / numpy shadows (fall through to the E1 shadows for S / SI, then to the builtin)
# --------------------------------------------------------------------------
def _publish_div_axioms():
    """vf.sym replaces a quotient by a fresh symbol whose defining axiom is only added to the final
    queries; a float->int conversion is followed by branching on the integer, so the axioms are made
    visible to the path condition here (keeps infeasible paths from being explored)"""
    c = sym.CTX
    if c is None or not hasattr(sym, "div_axioms"):
        return
    seen = getattr(c, "_div_seen", None)
    if seen is None:
        seen = c._div_seen = set()
    for ax in sym.div_axioms():
        k = ax.get_id()
        if k not in seen:
            seen.add(k)
            c.pc.append(ax)


def fp_int(x, *a):
    if isinstance(x, SFI):
        return x
    if isinstance(x, SF):
        return fp_trunc(x)
    if isinstance(x, S):
        _publish_div_axioms()
    return _env.sym_int(x, *a)


def fp_float(x):
    if isinstance(x, (SF, SFI)):
        return to_float(x)
    return _env.sym_float(x)


def fp_isinstance(x, t):
    ts = t if isinstance(t, tuple) else (t,)
    ts = tuple({fp_int: int, fp_float: float}.get(u, u) if callable(u) and not isinstance(u, type) else u for u in ts)
    if isinstance(x, SFI):
        return int in ts or np.integer in ts
    if isinstance(x, SF):
        return float in ts
    return _env.sym_isinstance(x, ts)


def _ite(c, a, b):
    """If-based selection (no path fork)"""
    if isinstance(a, SFI) or isinstance(b, SFI):
        if isinstance(a, (SF, float)) or isinstance(b, (SF, float)):
            a, b = SF.of(a), SF.of(b)
        else:
            a, b = SFI.of(a), SFI.of(b)
            return SFI(z3.If(c.fp, a.bv, b.bv), z3.If(c.re, a.re, b.re), min(a.lo, b.lo), max(a.hi, b.hi))
    a, b = SF.of(a), SF.of(b)
    return SF(z3.If(c.fp, a.fp, b.fp), z3.If(c.re, a.re, b.re))


def fp_max(*a, **kw):
    if len(a) == 1:
        a = tuple(a[0])
    if not any(isinstance(v, (SF, SFI)) for v in a):
        return _env.sym_max(*a, **kw)
    m = a[0]
    for v in a[1:]:
        m = _ite(v > m, v, m)
    return m


def fp_min(*a, **kw):
    if len(a) == 1:
        a = tuple(a[0])
    if not any(isinstance(v, (SF, SFI)) for v in a):
        return _env.sym_min(*a, **kw)
    m = a[0]
    for v in a[1:]:
        m = _ite(v < m, v, m)
    return m


def fp_abs(x):
    if isinstance(x, SF):
        return abs(x)
    if isinstance(x, SFI):
        return _ite(x < 0, -x, x)
    return abs(x)


def _is_fp(x):
    if isinstance(x, (SF, SFI)):
        return True
    if isinstance(x, np.ndarray) and x.dtype == object and x.size and isinstance(x.flat[0], (SF, SFI)):
        return True
    return False


def _np_elementwise(mode):
    real = {"round": np.round, "floor": np.floor, "ceil": np.ceil}[mode]
    e1 = {"round": _env.sym_round, "floor": _env.sym_floor}.get(mode)

    def f(x, *a, **kw):
        if _is_fp(x):
            if isinstance(x, np.ndarray):
                out = np.empty(x.shape, dtype=object)
                for idx in np.ndindex(*x.shape):
                    out[idx] = _to_integral(x[idx], mode)
                return out
            return _to_integral(x, mode)
        if _env._is_sym(x):
            _publish_div_axioms()
        if _env._is_sym(x) and e1 is not None:
            if isinstance(x, np.ndarray):
                out = np.empty(x.shape, dtype=object)
                for idx in np.ndindex(*x.shape):
                    out[idx] = _memo_e1(mode, e1, x[idx])
                return out
            return _memo_e1(mode, e1, x)
        if _env._is_sym(x) and mode == "ceil":
            return _sym_ceil(x)
        return real(x, *a, **kw)
    return f


def _memo_e1(mode, fn, x):
    """round/floor are functions: the same (simplified) argument on the same path gets the same integer symbol"""
    c = sym.CTX
    if c is None or isinstance(x, SI) or not isinstance(x, S) or x.is_concrete():
        return fn(x)
    memo = getattr(c, "_int_memo", None)
    if memo is None:
        memo = c._int_memo = {}
    key = (mode, z3.simplify(sym.zr(x.re), som=True).sexpr())
    if key not in memo:
        memo[key] = fn(x)
    return memo[key]


def _sym_ceil(x):
    """E1 (real model) ceil of an S / SI"""
    if isinstance(x, SI):
        return x
    x = S.of(x)
    if x.is_concrete():
        return int(np.ceil(float(x.re)))
    n = z3.FreshInt("cei")
    e = sym.zr(x.re)
    sym.assume(z3.And(z3.ToReal(n) - 1 < e, e <= z3.ToReal(n)))
    return SI(n, -64, 64)


NP_OVERRIDES = {"round": _np_elementwise("round"), "rint": _np_elementwise("round"), "around": _np_elementwise("round"),
                "floor": _np_elementwise("floor"), "ceil": _np_elementwise("ceil"),
                "abs": lambda x: fp_abs(x) if isinstance(x, (SF, SFI, S, SI)) else np.abs(x),
                "isclose": lambda a, b, rtol=1e-05, atol=1e-08, **kw: (abs(a - b) <= atol + rtol * abs(b)) if _is_fp(a) or _is_fp(b) else np.isclose(a, b, rtol=rtol, atol=atol, **kw)}


def shadows(*modules, names=("int", "float", "max", "min", "isinstance", "abs", "np")):
    """-> dict for symbolic_env(extra=...): builtins + `np` of the named modules shadowed so that
    SF/SFI (and S/SI) values stay symbolic"""
    table = {"int": fp_int, "float": fp_float, "max": fp_max, "min": fp_min, "isinstance": fp_isinstance, "abs": fp_abs}
    out = {}
    for m in modules:
        for n in names:
            out["%s.%s" % (m, n)] = _env.NpProxy(NP_OVERRIDES) if n == "np" else table[n]
    return out


# --------------------------------------------------------------------------
# run the CURRENT source of an expression that cannot be reached by calling a method
# --------------------------------------------------------------------------
def eval_slice(func, target, local_vars, extra_globals=None):
    """Backward slice of `func`'s CURRENT source w.r.t. the assignment target `target`
    (e.g. 'self._num_steps'): the assignments feeding it are executed, in source order, in the
    function's own module globals (so module-global shadows apply) with `local_vars` as locals.
    Nothing of the expression is copied into the harness."""
    import ast
    import inspect
    import textwrap
    src = textwrap.dedent(inspect.getsource(func))
    fn = ast.parse(src).body[0]
    assigns = [n for n in ast.walk(fn) if isinstance(n, ast.Assign) and len(n.targets) == 1]
    assigns.sort(key=lambda n: (n.lineno, n.col_offset))

    def tname(t):
        return ast.unparse(t)
    last = [a for a in assigns if tname(a.targets[0]) == target]
    if not last:
        raise LookupError("hook point gone: no assignment to %s in %s" % (target, func.__qualname__))
    goal = last[-1]
    needed, chosen = set(), [goal]

    def uses(node):
        out = set()
        for n in ast.walk(node):
            if isinstance(n, ast.Name):
                out.add(n.id)
            elif isinstance(n, ast.Attribute):
                out.add(ast.unparse(n))
        return out
    needed |= uses(goal.value)
    for a in reversed([a for a in assigns if (a.lineno, a.col_offset) < (goal.lineno, goal.col_offset)]):
        t = tname(a.targets[0])
        if t in needed and t not in local_vars and not _resolvable(t, local_vars):
            chosen.append(a)
            needed.discard(t)
            needed |= uses(a.value)
    chosen.sort(key=lambda n: (n.lineno, n.col_offset))
    g = dict(func.__globals__)
    if extra_globals:
        g.update(extra_globals)
    loc = dict(local_vars)
    for a in chosen:
        val = eval(compile(ast.Expression(a.value), "<slice of %s>" % func.__qualname__, "eval"), g, loc)
        t = a.targets[0]
        if isinstance(t, ast.Name):
            loc[t.id] = val
        elif isinstance(t, ast.Attribute):
            obj = eval(compile(ast.Expression(t.value), "<slice>", "eval"), g, loc)
            object.__setattr__(obj, t.attr, val)
        else:
            raise LookupError("unsupported assignment target in slice: %s" % tname(t))
    return val, [ast.unparse(a) for a in chosen]


def _resolvable(dotted, local_vars):
    """an attribute chain like self._parameters.dt already provided by the stand-in objects"""
    parts = dotted.split(".")
    if parts[0] not in local_vars or len(parts) == 1:
        return False
    o = local_vars[parts[0]]
    try:
        for p in parts[1:]:
            o = getattr(o, p)
    except AttributeError:
        return False
    return True


# --------------------------------------------------------------------------
# inputs
# --------------------------------------------------------------------------
def f2hex(x):
    return float(x).hex()


def fpnum_to_float(v):
    """z3 FP numeral -> python float (bit-exact)"""
    bv = z3.simplify(z3.fpToIEEEBV(v))
    return struct.unpack(">d", struct.pack(">Q", bv.as_long()))[0]


class FInputs:
    """inputs of an fpx case.  mode 'sym' (twin terms) or 'real' (python floats/ints taken from
    `values`: name -> float.hex() string | int; missing ones are drawn from the seeded RNG)."""

    def __init__(self, mode, values=None, seed=0):
        self.mode = mode
        self.values = values if values is not None else {}
        self.rnd = random.Random(seed)
        self.fpvars = {}        # name -> fp-side z3 const
        self.revars = {}        # name -> real-side z3 const
        self.kinds = {}

    @staticmethod
    def wrap(inp):
        if isinstance(inp, FInputs):
            return inp
        # core.Inputs in real mode (replay path of the framework)
        fi = FInputs("real", values=inp.values, seed=0)
        return fi

    @property
    def symbolic(self):
        return self.mode == "sym"

    def _getf(self, name, lo, hi):
        if name in self.values:
            v = self.values[name]
            return float.fromhex(v) if isinstance(v, str) else float(v)
        # decimal-looking values: the interesting ones for time grids
        for _ in range(100):
            digits = self.rnd.choice([1, 2, 3])
            v = round(self.rnd.uniform(lo, hi), digits)
            if lo <= v <= hi:
                break
        self.values[name] = f2hex(v)
        return v

    def double(self, name, lo, hi, nonzero=False):
        self.kinds[name] = "double"
        if self.mode == "sym":
            fv, rv = z3.FP(name, F64), z3.Real(name + "_r")
            self.fpvars[name], self.revars[name] = fv, rv
            assume_twin(fp=z3.And(z3.fpGEQ(fv, z3.FPVal(lo, F64)), z3.fpLEQ(fv, z3.FPVal(hi, F64))),
                        re=z3.And(rv >= _rq(lo), rv <= _rq(hi)))
            return SF(fv, rv)
        v = self._getf(name, lo, hi)
        if not (lo <= v <= hi):
            from .core import PreconditionFailed
            raise PreconditionFailed()
        return v

    def count(self, name, lo, hi, bits=11):
        """integer input lo <= m <= hi < 2^bits (bit-vector on the FP side: DESIGN 2.2)"""
        assert 0 <= lo <= hi < 2 ** bits
        self.kinds[name] = "count"
        if self.mode == "sym":
            nb, iv = z3.BitVec(name, bits), z3.Int(name + "_i")
            self.fpvars[name], self.revars[name] = nb, iv
            assume_twin(fp=z3.And(z3.UGE(nb, lo), z3.ULE(nb, hi)), re=z3.And(iv >= lo, iv <= hi))
            return SFI(z3.ZeroExt(32 - bits, nb), iv, lo, hi, nb=nb)
        if name in self.values:
            v = int(self.values[name])
        else:
            v = self.rnd.randint(lo, min(hi, 40))
            self.values[name] = v
        if not (lo <= v <= hi):
            from .core import PreconditionFailed
            raise PreconditionFailed()
        return v

    def neighbour(self, name, x):
        """a double within one ulp of x (x itself, next below, next above)"""
        self.kinds[name] = "double"
        if self.mode == "sym":
            eb = z3.BitVec(name + "_bits", 64)
            fv = z3.fpBVToFP(eb, F64)
            rv = z3.Real(name + "_r")
            self.fpvars[name], self.revars[name] = fv, rv
            gb = z3.BitVec(name + "_gridbits", 64)       # standard SMT-LIB (no fp.to_ieee_bv): to_fp(gb) = x
            d = _fresh("nb")
            # |ulp(x)| <= 2^-52 |x| for normal x; subnormal neighbourhood: absolute 2^-1074
            e = _fresh("ne")
            assume_twin(fp=z3.And(z3.fpBVToFP(gb, F64) == x.fp, z3.Or(eb == gb, eb == gb + 1, eb == gb - 1),
                                  z3.Not(z3.fpIsNaN(fv)), z3.Not(z3.fpIsInf(fv))),
                        re=z3.And(d >= -2 * _U, d <= 2 * _U, e >= -_ETA, e <= _ETA, rv == x.re * (1 + d) + e))
            return SF(fv, rv)
        if name in self.values:
            v = self.values[name]
            v = float.fromhex(v) if isinstance(v, str) else float(v)
        else:
            v = self.rnd.choice([x, math.nextafter(x, math.inf), math.nextafter(x, -math.inf)])
            self.values[name] = f2hex(v)
        if v not in (x, math.nextafter(x, math.inf), math.nextafter(x, -math.inf)):
            from .core import PreconditionFailed
            raise PreconditionFailed()
        return v

    def assume(self, fp=None, re=None, conc=None):
        """twin precondition.  The FP twin may be STRONGER than the real one (the FP side only
        searches for counterexamples, every model is re-checked by `conc` in the replay)."""
        if self.mode == "sym":
            assume_twin(fp=fp, re=re)
        else:
            if conc is not None and not conc:
                from .core import PreconditionFailed
                raise PreconditionFailed()

    def to_float(self, x):
        return to_float(x) if self.mode == "sym" else float(x)


class FOb:
    """obligation with twin encodings.  `holds`: FB (sym) or bool (real).  `outputs`: name -> value
    (SF/SFI | python number) used to validate the encodings against the real run.
    `fp_exact`: the FP-side input set equals the claimed one (then a bit-precise unsat is a verdict too)."""

    def __init__(self, label, holds, key=None, outputs=None, info=None, fp_exact=True):
        self.label, self.holds, self.key, self.outputs, self.info, self.fp_exact = label, holds, key or label, outputs or {}, info, fp_exact

    def violated_concrete(self, tol):
        h = self.holds
        if isinstance(h, FB):
            h = z3.is_true(z3.simplify(h.re))
        return (not bool(h)), 0.0


# --------------------------------------------------------------------------
# case execution
# --------------------------------------------------------------------------
def _check(solver, formulas, timeout_s):
    solver.set("timeout", int(timeout_s * 1000))
    solver.add(*formulas)
    t = time.time()
    r = solver.check()
    dt = time.time() - t
    return ("sat" if r == z3.sat else "unsat" if r == z3.unsat else "unknown"), (solver.model() if r == z3.sat else None), dt


def cvc5_verdict(formulas, timeout_s=60):
    """second opinion on a (pinned, hence cheap) QF_BVFP query from the cvc5 wheel: 'sat' | 'unsat' | 'unknown' | 'unavailable'"""
    try:
        import cvc5
    except Exception:  # noqa
        return "unavailable"
    try:
        s = z3.SolverFor("QF_BVFP")
        s.add(*formulas)
        txt = "(set-logic QF_BVFP)\n" + s.to_smt2()
        slv = cvc5.Solver()
        slv.setOption("tlimit-per", str(int(timeout_s * 1000)))
        parser = cvc5.InputParser(slv)
        parser.setStringInput(cvc5.InputLanguage.SMT_LIB_2_6, txt, "fpx")
        sm = parser.getSymbolManager()
        out = ""
        while True:
            cmd = parser.nextCommand()
            if cmd.isNull():
                break
            out += cmd.invoke(slv, sm)
        out = out.strip().split()
        return out[-1] if out and out[-1] in ("sat", "unsat", "unknown") else "unknown"
    except Exception:  # noqa
        return "unavailable"


def _model_values(m, fi):
    out = {}
    for name, v in fi.fpvars.items():
        x = m.eval(v, model_completion=True)
        if fi.kinds[name] == "count":
            out[name] = x.as_long()
        else:
            out[name] = f2hex(fpnum_to_float(x))
    return out


def _pin(fi, values):
    """equalities input == value on both sides"""
    fp, re = [], []
    for name, v in values.items():
        if name not in fi.fpvars:
            continue
        if fi.kinds[name] == "count":
            fp.append(fi.fpvars[name] == int(v))
            re.append(fi.revars[name] == int(v))
        else:
            x = float.fromhex(v) if isinstance(v, str) else float(v)
            fp.append(fi.fpvars[name] == z3.FPVal(x, F64))
            re.append(fi.revars[name] == _rq(x))
    return fp, re


def execute_fp_case(prop, case, tier, seed):
    """fpx twin of core.execute_case; returns the same result-dict shape"""
    from . import core
    known = [f["key"] for f in core.load_findings() if f["property"] == prop and f.get("status") == "known"]
    t0 = time.time()
    res = {"case": case.id, "bounds": case.bounds, "queries": [], "violations": [], "inconclusive": [], "errors": [],
           "paths": 0, "functions": [], "twins": [], "validated": 0, "solver_s": 0.0, "stubs": list(case.stubs),
           "assumptions": list(case.assumptions), "samples": []}
    try:
        def once():
            fi = FInputs("sym")
            obs = case.run(fi)
            return fi, obs, list(_ctx().fp_pc)

        def sym_run():
            with _env.symbolic_env(**case.env):
                return sym.explore(once, max_paths=case.max_paths)
        paths, fns = core._trace_functions(sym_run)
        res["functions"] = sorted("%s:%s" % f for f in fns)
        res["paths"] = len(paths)
        if not paths:
            res["errors"].append("no feasible path (vacuous harness)")
        reach = False
        for pi, (pc_re, (fi, obs, pc_fp)) in enumerate(paths):
            r, _, dt = _check(z3.Solver(), list(pc_re), 30)
            res["solver_s"] += dt
            res["twins"].append({"path": pi, "twin": "error-model path condition satisfiable", "result": r})
            if r == "unsat":
                continue
            if r == "sat":
                reach = True
            for ob in obs:
                if any(not core._is_known(v["key"], known) for v in res["violations"]):
                    break
                h = tofb(ob.holds)
                q = {"path": pi, "label": ob.label, "trivial": False, "engine": "error-model (reals)"}
                import hashlib
                q["hash"] = hashlib.sha1(z3.simplify(z3.And(z3.Not(h.re), *pc_re)).sexpr().encode()).hexdigest()[:12]
                r, m, dt = _check(z3.Solver(), list(pc_re) + [z3.Not(h.re)], case.timeout_s)
                res["solver_s"] += dt
                q.update(result=r, s=round(dt, 3))
                res["queries"].append(q)
                if len(res["samples"]) < 3:
                    res["samples"].append({"case": case.id, "obligation": ob.label, "path": pi, "verdict": r,
                                           "formula_head": z3.simplify(z3.Not(h.re)).sexpr()[:240]})
                if r == "unsat":
                    continue
                # error model sat/unknown: proves nothing -> bit-precise search on the same path
                found = None
                last = "none"
                for iname, ifn in case.fp_instances(fi):
                    extra = ifn
                    s = z3.SolverFor("QF_BVFP")
                    r2, m2, dt2 = _check(s, list(pc_fp) + [z3.Not(h.fp)] + list(extra), case.fp_timeout_s)
                    res["solver_s"] += dt2
                    q2 = {"path": pi, "label": ob.label + " [bit-precise, instance: %s]" % iname, "trivial": False,
                          "engine": "QF_BVFP", "result": r2, "s": round(dt2, 3), "hash": "-"}
                    res["queries"].append(q2)
                    last = r2
                    if r2 == "sat":
                        found = (m2, q2)
                        break
                    if r2 == "unsat" and not extra and ob.fp_exact:
                        break
                if found is None:
                    if last == "unsat" and ob.fp_exact:
                        # full-width bit-precise unsat finished: holds bit-precisely (the error model was too coarse)
                        continue
                    res["inconclusive"].append({"label": ob.label, "path": pi,
                                                "why": "error model %s, no bit-precise model found within the instance ladder" % r})
                    continue
                m2, q2 = found
                values = _model_values(m2, fi)
                cv = cvc5_verdict(list(pc_fp) + [z3.Not(h.fp)] + _pin(fi, values)[0])
                q2["cvc5_at_model"] = cv
                if cv == "unsat":
                    res["errors"].append("z3 and cvc5 disagree on the bit-precise query pinned at the z3 model %s" % values)
                bad = core.replay_values(case, values)
                if bad:
                    lab = [b for b in bad if b[0] == ob.label] or bad
                    res["violations"].append({"label": lab[0][0], "key": "%s/%s/%s" % (prop, case.id, lab[0][1]), "magnitude": lab[0][2],
                                              "values": values, "found_by": "bit-precise solver model (QF_BVFP), replayed on real code with float.fromhex",
                                              "info": ob.info})
                    q2["replayed"] = True
                elif bad is None:
                    res["inconclusive"].append({"label": ob.label, "path": pi, "why": "FP model violates the exact precondition in the replay", "values": values})
                else:
                    res["inconclusive"].append({"label": ob.label, "path": pi, "why": "bit-precise counterexample does not reproduce on real code", "values": values})
                    q2["replayed"] = False
        if paths and not reach:
            res["errors"].append("reachability twin failed: no path with satisfiable path condition")
        # validation of BOTH encodings against the real run at concrete points (DESIGN 2.4)
        if case.validate and not res["errors"]:
            for vseed in range(seed, seed + case.validation_points):
                ok = _validate_point(case, paths, vseed, res)
                if ok:
                    res["validated"] += 1
    except sym.Inconclusive as e:
        res["inconclusive"].append({"label": "*", "why": str(e)})
    except BaseException as e:  # noqa
        res["errors"].append("%s: %s\n%s" % (type(e).__name__, e, traceback.format_exc()[-1500:]))
    res["wall_s"] = round(time.time() - t0, 2)
    return res


def _validate_point(case, paths, vseed, res):
    """real run at a seeded concrete point; the FP encoding must reproduce every output bit-exactly
    and the error model must admit it"""
    from . import core
    ri = FInputs("real", values={}, seed=vseed * 101 + 7)
    try:
        with _env.patched(case.real_env):
            robs = case.run(ri)
    except core.PreconditionFailed:
        return False
    values = dict(ri.values)
    routs = {}
    for o in robs:
        routs.update(o.outputs)
    matched = False
    for pc_re, (fi, obs, pc_fp) in paths:
        pf, pr = _pin(fi, values)
        s = z3.SolverFor("QF_BVFP")
        r, m, dt = _check(s, list(pc_fp) + pf, 60)
        if r != "sat":
            continue
        matched = True
        souts = {}
        for o in obs:
            souts.update(o.outputs)
        eqs = []
        fp_eqs = []
        for name, rv in routs.items():
            sv = souts.get(name)
            if sv is None:
                continue
            if isinstance(sv, SFI):
                got = m.eval(sv.bv, model_completion=True).as_signed_long()
                if got != int(rv):
                    res["errors"].append("validation: FP encoding gives %s=%s, real code %s at %s" % (name, got, rv, values))
                eqs.append(sv.re == int(rv))
                fp_eqs.append(sv.bv == z3.BitVecVal(int(rv), 32))
            elif isinstance(sv, SF):
                got = fpnum_to_float(m.eval(sv.fp, model_completion=True))
                if got != float(rv):
                    res["errors"].append("validation: FP encoding gives %s=%r, real code %r at %s" % (name, got, rv, values))
                eqs.append(sv.re == _rq(rv))
                fp_eqs.append(sv.fp == z3.FPVal(float(rv), F64))
            elif isinstance(sv, (int, float)):
                if sv != rv:
                    res["errors"].append("validation: concrete output %s differs: %r vs %r" % (name, sv, rv))
        cv = cvc5_verdict(list(pc_fp) + pf + fp_eqs)
        if cv == "unsat":
            res["errors"].append("validation: cvc5 disagrees with z3/real code on the FP encoding at %s" % values)
        res.setdefault("cvc5_checks", []).append(cv)
        r2, _, _ = _check(z3.Solver(), list(pc_re) + pr + eqs, 60)
        if r2 != "sat":
            res["errors"].append("validation: error model does not admit the real run (%s) at %s" % (r2, values))
        break
    if not matched:
        res["errors"].append("validation: no explored path matches the concrete point %s" % values)
    return matched


class FCase:
    """fpx case (duck-typed like core.Case so that core.replay_values / replay_file work)"""
    id = "?"
    tiers = ("quick", "thorough")
    bounds = {}
    env = {}
    real_env = {}
    timeout_s = 120          # error-model query
    fp_timeout_s = 60        # per bit-precise instance
    tol = 0.0
    stubs = ()
    assumptions = ()
    max_paths = 64
    validate = True
    validation_points = 3
    is_fp = True

    def fp_instances(self, fi):
        """ladder of (name, [extra FP-side constraints]); the empty list = the full query"""
        return [("full", [])]

    def run(self, inp):
        raise NotImplementedError


# --------------------------------------------------------------------------
# driver shared by the checks that mix fpx cases and E1 cases
# --------------------------------------------------------------------------
def run_cases(prop, mod, tier, seed, args, hard_timeout_s=900):
    """Runs mod.cases(tier) (FCase -> execute_fp_case, Case -> core.execute_case), one forked process per
    case, at most `jobs` at a time.  A case that exceeds `hard_timeout_s` wall seconds (z3 does not always
    honour its own timeout inside nlsat) is killed and reported as inconclusive (exit 2), never as success."""
    import multiprocessing as mp
    import os
    import sys
    from . import core
    t0 = time.time()
    cs = mod.cases(tier)
    only = args.only
    idx = [i for i, c in enumerate(cs) if only is None or any(o in c.id for o in only)]
    jobs = args.jobs or min(16, max(1, len(idx)))
    verbose = os.environ.get("VF_VERBOSE")

    def work(i, conn):
        case = mod.cases(tier)[i]
        try:
            if getattr(case, "is_fp", False):
                r = execute_fp_case(prop, case, tier, seed)
            else:
                r = core.execute_case(prop, case, tier, seed)
        except BaseException as e:  # noqa
            r = _blank(case, errors=["%s: %s" % (type(e).__name__, e)])
        conn.send(r)
        conn.close()

    def _blank(case, **kw):
        r = {"case": case.id, "bounds": case.bounds, "queries": [], "violations": [], "inconclusive": [], "errors": [],
             "paths": 0, "functions": [], "twins": [], "validated": 0, "solver_s": 0.0, "stubs": list(case.stubs),
             "assumptions": list(case.assumptions), "samples": [], "wall_s": 0.0}
        r.update(kw)
        return r

    ctx = mp.get_context("fork")
    pending = list(idx)
    running = []
    results = []
    while pending or running:
        while pending and len(running) < jobs:
            i = pending.pop(0)
            a, b = ctx.Pipe(duplex=False)
            p = ctx.Process(target=work, args=(i, b))
            p.start()
            b.close()
            if verbose:
                print("[start] %s" % cs[i].id, file=sys.stderr, flush=True)
            running.append((p, a, time.time(), i))
        still = []
        for p, a, ts, i in running:
            if a.poll(0.05):
                try:
                    r = a.recv()
                except EOFError:
                    r = _blank(cs[i], errors=["worker died"])
                p.join()
                results.append(r)
                if verbose:
                    print("[done ] %s %.1fs solver=%.1fs q=%d viol=%d err=%d inc=%d" % (
                        cs[i].id, r.get("wall_s", 0), r["solver_s"], len(r["queries"]), len(r["violations"]), len(r["errors"]),
                        len(r["inconclusive"])), file=sys.stderr, flush=True)
            elif not p.is_alive():
                p.join()
                results.append(_blank(cs[i], errors=["worker exited without a result (exit code %s)" % p.exitcode]))
            elif time.time() - ts > hard_timeout_s:
                p.kill()
                p.join()
                results.append(_blank(cs[i], wall_s=round(time.time() - ts, 1), inconclusive=[
                    {"label": "*", "why": "hard wall-clock limit of %d s exceeded (solver did not honour its timeout)" % hard_timeout_s}]))
                if verbose:
                    print("[kill ] %s" % cs[i].id, file=sys.stderr, flush=True)
            else:
                still.append((p, a, ts, i))
        running = still
    results.sort(key=lambda r: r["case"])
    return core.finish(prop, mod, tier, seed, results, time.time() - t0)
