"""Replay of thx models on the REAL code with real threads.

H1: a schedule (sequence of thread choices at event granularity) is replayed on the real progress
class.  Interposition is from the outside only: a dynamic subclass hooks reads/writes of the tracked
attributes, `Timer` is a subclass of the real threading.Timer whose `run()` is the real one with the
interval wait replaced by a fake clock (the scheduler decides when the interval has elapsed), lock
attributes are wrapped.  Every hooked operation is a gate at which the thread waits for its turn.
The verdict is taken from `threading.enumerate()`.

H2: the public API is run with progress_type='bar' on a small real model; the failure is injected at the
solver-chosen call expression (position + dynamic occurrence, tracked with sys.monitoring CALL events of
the API function's code object): a user-supplied callable raises when it is invoked underneath that
call; if no user callable runs underneath it, the exception is raised at the call itself."""
import contextlib
import io
import sys
import threading
import time

_RealTimer = threading.Timer


class ReplayDesync(Exception):
    pass


class FaultInjected(Exception):
    pass


# ---------------------------------------------------------------------------------------
# H1: deterministic scheduler
# ---------------------------------------------------------------------------------------
class Scheduler:
    def __init__(self, timeout=5.0):
        self.cv = threading.Condition()
        self.arrived = {}
        self.finished = set()
        self.grant = None
        self.free_run = False
        self.names = {}          # thread ident -> name
        self.timers = []
        self.timeout = timeout
        self.log = []

    def me(self):
        return self.names.get(threading.get_ident())

    def gate(self, kind, detail=None):
        if self.free_run:
            return
        me = self.me()
        if me is None:
            return
        with self.cv:
            self.arrived[me] = (kind, detail)
            self.cv.notify_all()
            t0 = time.time()
            while self.grant != me and not self.free_run:
                self.cv.wait(0.05)
                if time.time() - t0 > 4 * self.timeout:
                    self.arrived.pop(me, None)
                    raise ReplayDesync("%s waited too long at gate %s" % (me, kind))
            if self.grant == me:
                self.grant = None
            self.arrived.pop(me, None)
            self.cv.notify_all()

    def thread_started(self, name):
        with self.cv:
            self.names[threading.get_ident()] = name

    def thread_finished(self, name):
        with self.cv:
            self.finished.add(name)
            self.cv.notify_all()

    def _wait(self, pred, what):
        t0 = time.time()
        while not pred():
            self.cv.wait(0.05)
            if time.time() - t0 > self.timeout:
                raise ReplayDesync("timeout waiting for " + what)

    def step(self, thread, kind, detail=None):
        """let `thread` execute its next gated operation, which must be of `kind`"""
        with self.cv:
            for _ in range(50):
                self._wait(lambda: thread in self.arrived or thread in self.finished, "%s to reach %s" % (thread, kind))
                if thread not in self.arrived:
                    raise ReplayDesync("%s finished before its %s" % (thread, kind))
                k, d = self.arrived[thread]
                ok = k == kind and (detail is None or d is None or d == detail)
                self.grant = thread
                self.cv.notify_all()
                self._wait(lambda: self.grant is None, "%s to take its turn" % thread)
                self._wait(lambda: thread in self.arrived or thread in self.finished, "%s to reach its next gate" % thread)
                if ok:
                    self.log.append((thread, k, d))
                    return
                if k != "read":
                    raise ReplayDesync("%s is at %s(%s), the model expected %s(%s)" % (thread, k, d, kind, detail))
                # a read the model sliced away as irrelevant: let it pass
            raise ReplayDesync("too many unmodelled reads in %s" % thread)

    def fire(self, idx):
        with self.cv:
            t = self.timers[idx]
            name = "timer%d" % idx
            t._vf_fire.set()
            self._wait(lambda: name in self.arrived or name in self.finished, "%s to run after firing" % name)
            self.log.append((name, "fire", None))

    def drain(self, thread):
        """let a thread run through remaining unmodelled reads to its end"""
        with self.cv:
            for _ in range(50):
                self._wait(lambda: thread in self.arrived or thread in self.finished, "%s to finish" % thread)
                if thread in self.finished:
                    return True
                k, d = self.arrived[thread]
                if k != "read":
                    return False
                self.grant = thread
                self.cv.notify_all()
                self._wait(lambda: self.grant is None, "%s to take its turn" % thread)
        return False


def make_timer_class(sched):
    class CtlTimer(_RealTimer):
        """threading.Timer with a fake clock: run() is Timer.run() with `finished.wait(interval)` replaced
        by `wait until the scheduler says the interval has elapsed, or cancel()`"""

        def __init__(self, interval, function, args=None, kwargs=None):
            sched.gate("new")
            _RealTimer.__init__(self, interval, function, args, kwargs)
            self._vf_fire = threading.Event()
            with sched.cv:
                self._vf_idx = len(sched.timers)
                sched.timers.append(self)
            self.name = "vf-timer%d" % self._vf_idx

        def start(self):
            sched.gate("start")
            _RealTimer.start(self)

        def cancel(self):
            sched.gate("cancel")
            _RealTimer.cancel(self)

        def join(self, timeout=None):
            sched.gate("join")
            _RealTimer.join(self, timeout)

        def run(self):
            name = "timer%d" % self._vf_idx
            sched.thread_started(name)
            try:
                while not self._vf_fire.is_set() and not self.finished.is_set():
                    self.finished.wait(0.002)
                if not self.finished.is_set():
                    self.function(*self.args, **self.kwargs)
                self.finished.set()
            finally:
                sched.thread_finished(name)
    return CtlTimer


class GateLock:
    def __init__(self, real, name, sched):
        self._real, self._name, self._sched = real, name, sched

    def acquire(self, *a, **k):
        self._sched.gate("acq", self._name)
        return self._real.acquire(*a, **k)

    def release(self):
        self._sched.gate("rel", self._name)
        self._real.release()

    def __enter__(self):
        return self.acquire()

    def __exit__(self, *a):
        self.release()

    def locked(self):
        return self._real.locked()


class GateEvent:
    """threading.Event attribute used as a flag: set/clear are writes, is_set is a read of that attribute"""

    def __init__(self, real, name, sched):
        self._real, self._name, self._sched = real, name, sched

    def set(self):
        self._sched.gate("write", self._name)
        self._real.set()

    def clear(self):
        self._sched.gate("write", self._name)
        self._real.clear()

    def is_set(self):
        self._sched.gate("read", self._name)
        return self._real.is_set()

    isSet = is_set

    def wait(self, timeout=None):
        return self._real.wait(timeout)


class BodyFailed(Exception):
    pass


def replay_schedule(util_mod, cls, tracked, lock_attrs, calls, schedule, timeout=5.0, event_attrs=(), fault_codes=None,
                    guarded=False, raise_at=None):
    """fault_codes: {method name: code object} of the progress-class methods -- schedule steps
    {"op":"fault","raises":True,"site":[method, bytecode offset]} make that call expression raise (injected, with
    sys.monitoring CALL events, exactly when the call is about to be made: equivalent to the callee -- print,
    str.format, file.write/flush, ... -- raising).  guarded: the caller is `enter(); try: update()... finally: exit()`
    otherwise the plain call sequence; guarded="with": the caller is the real statement
    `with obj as p: p.update(0); ...` and, if raise_at=j, its body raises before the j-th update (j=u: after the last)."""
    """calls: [(method, args)] of the caller thread; schedule: list of {"thread","op",...}.
    -> dict(leaked=[timer idx...], threads=[...], desync=None|str, bytes_after_exit, rearmed, log)"""
    sched = Scheduler(timeout)
    Ctl = make_timer_class(sched)
    tracked = set(tracked) - set(event_attrs)

    class Traced(cls):
        def __getattribute__(self, name):
            if name in tracked:
                sched.gate("read", name)
            return cls.__getattribute__(self, name)

        def __setattr__(self, name, value):
            if name in tracked:
                sched.gate("write", name)
            cls.__setattr__(self, name, value)
    Traced.__name__ = cls.__name__
    out = io.StringIO()
    res = {"leaked": [], "desync": None, "threads": [], "bytes_after_exit": 0, "rearmed": False, "caller_exception": None}
    patched = []
    if getattr(util_mod, "Timer", None) is _RealTimer:
        patched.append((util_mod, "Timer", _RealTimer))
        util_mod.Timer = Ctl
    patched.append((threading, "Timer", threading.Timer))
    threading.Timer = Ctl
    old_stdout = sys.stdout
    sys.stdout = out
    excs = []
    mon_tool = None
    old_hook = threading.excepthook
    threading.excepthook = lambda a: excs.append("%s: %s" % (a.exc_type.__name__, a.exc_value))
    try:
        obj = Traced(3, "replay")
        if hasattr(obj, "_file"):
            object.__setattr__(obj, "_file", out)
        for la in lock_attrs:
            object.__setattr__(obj, la, GateLock(object.__getattribute__(obj, la), la, sched))
        for ea in event_attrs:
            object.__setattr__(obj, ea, GateEvent(object.__getattribute__(obj, ea), ea, sched))

        def caller():
            sched.thread_started("main")
            try:
                if guarded == "with":
                    # the real `with` statement: the class' own __enter__/__exit__ run, __exit__ gets the exception
                    upd = calls[1:-1]
                    with obj as p_:
                        for j_, (m, args) in enumerate(upd):
                            if raise_at == j_:
                                raise BodyFailed("the with-body fails before update #%d" % j_)
                            getattr(p_ if p_ is not None else obj, m)(*args)
                        if raise_at == len(upd):
                            raise BodyFailed("the with-body fails after its last update")
                elif guarded:
                    getattr(obj, calls[0][0])(*calls[0][1])
                    try:
                        for m, args in calls[1:-1]:
                            getattr(obj, m)(*args)
                    finally:
                        getattr(obj, calls[-1][0])(*calls[-1][1])
                else:
                    for m, args in calls:
                        getattr(obj, m)(*args)
            except ReplayDesync:
                pass
            except Exception as e:  # noqa
                res["caller_exception"] = "%s: %s" % (type(e).__name__, e)
            finally:
                sched.thread_finished("main")
        # which execution (per thread) of which call expression raises
        raising, seen_cnt = set(), {}
        for st in schedule:
            if st["op"] == "fault" and st.get("site"):
                key = (st["thread"], st["site"][0], int(st["site"][1]))
                seen_cnt[key] = seen_cnt.get(key, 0) + 1
                if st.get("raises"):
                    raising.add(key + (seen_cnt[key],))
        if fault_codes and raising:
            by_code = {c: n for n, c in fault_codes.items()}
            run_cnt = {}

            def on_call(code, offset, callable_, arg0):
                nm = by_code.get(code)
                me = sched.me()
                if nm is None or me is None or sched.free_run:
                    return
                key = (me, nm, offset)
                run_cnt[key] = run_cnt.get(key, 0) + 1
                if key + (run_cnt[key],) in raising:
                    sched.gate("fault", nm)
                    raise FaultInjected("%s: call at bytecode offset %d of %s raises" % (me, offset, nm))
            mon = sys.monitoring
            for t in (4, 3, 5, 2, 1, 0):
                if mon.get_tool(t) is None:
                    mon_tool = t
                    break
            mon.use_tool_id(mon_tool, "vf-thx-h1f")
            mon.register_callback(mon_tool, mon.events.CALL, on_call)
            for c in by_code:
                mon.set_local_events(mon_tool, c, mon.events.CALL)
        th = threading.Thread(target=caller, name="vf-caller", daemon=True)
        th.start()
        try:
            for st in schedule:
                if st["op"] == "nd":
                    continue
                if st["op"] == "fault":
                    if st.get("raises"):
                        sched.step(st["thread"], "fault")
                    continue
                if st["op"] == "fire":
                    sched.fire(int(st["thread"][5:]))
                else:
                    sched.step(st["thread"], st["op"])
            # the caller must have left the library call (possibly after unmodelled trailing reads)
            if not sched.drain("main"):
                raise ReplayDesync("caller has not left the call at the end of the schedule")
            th.join(timeout)
            for i, t in enumerate(sched.timers):
                nm = "timer%d" % i
                if nm in sched.names.values() and nm not in sched.finished and t._vf_fire.is_set():
                    if not sched.drain(nm):
                        raise ReplayDesync("%s still running at the end of the schedule" % nm)
        except ReplayDesync as e:
            res["desync"] = str(e)
        # cancelled timer threads exit on their own: give them the chance
        for t in sched.timers:
            if t.finished.is_set() and t.is_alive():
                _RealTimer.join(t, 1.0)
        alive = [t for t in threading.enumerate() if isinstance(t, Ctl) and t.is_alive()]
        res["threads"] = [t.name for t in threading.enumerate()]
        leaked = [t for t in alive if not t.finished.is_set() and not t._vf_fire.is_set()]
        res["leaked"] = sorted(t._vf_idx for t in leaked)
        res["log"] = ["%s:%s%s" % (a, b, "" if c is None else "(%s)" % c) for a, b, c in sched.log]
        # what the survivor does when its interval elapses: writes to the stream and re-arms
        if leaked and res["desync"] is None:
            n0 = len(out.getvalue())
            ntim = len(sched.timers)
            sched.free_run = True
            with sched.cv:
                sched.cv.notify_all()
            leaked[0]._vf_fire.set()
            _RealTimer.join(leaked[0], 2.0)
            res["bytes_after_exit"] = len(out.getvalue()) - n0
            res["rearmed"] = any(t.is_alive() and not t.finished.is_set() for t in sched.timers[ntim:])
    finally:
        sched.free_run = True
        with sched.cv:
            sched.cv.notify_all()
        for _ in range(100):
            live = [t for t in threading.enumerate() if isinstance(t, _RealTimer) and getattr(t, "_vf_idx", None) is not None and t.is_alive()]
            if not live:
                break
            for t in live:
                _RealTimer.cancel(t)
            for t in live:
                _RealTimer.join(t, 0.2)
        if mon_tool is not None:
            for c in fault_codes.values():
                sys.monitoring.set_local_events(mon_tool, c, 0)
            sys.monitoring.register_callback(mon_tool, sys.monitoring.events.CALL, None)
            sys.monitoring.free_tool_id(mon_tool)
        for mod, name, orig in patched:
            setattr(mod, name, orig)
        sys.stdout = old_stdout
        threading.excepthook = old_hook
    res["thread_exceptions"] = excs
    return res


# ---------------------------------------------------------------------------------------
# H2: fault injection through the public API
# ---------------------------------------------------------------------------------------
class Hooks:
    """tracks, with sys.monitoring CALL events of the API function's code object, which call expression
    of the API function is currently executing and how many times it has been executed"""

    def __init__(self, code):
        self.code = code
        self.pos = list(code.co_positions())
        self.counts = {}
        self.current = None          # ((end_lineno, end_col), occurrence)
        self.chosen = None
        self.mode = "record"         # record | user | direct
        self.reach = set()
        self.fired = None
        self.tool = None
        self.variant = {}            # extra keyword arguments of the API call (driver variants)
        self.seq = []                # keys of the executed call expressions, in order
        self.keep = []               # objects the caller still holds after the API call (as a user would)

    def key_at(self, offset):
        p = self.pos[offset // 2]
        return (p[1], p[3])

    def _on_call(self, code, offset, callable_, arg0):
        if code is not self.code:
            return
        k = self.key_at(offset)
        n = self.counts.get(k, 0) + 1
        self.counts[k] = n
        self.current = (k, n)
        if len(self.seq) < 200000:
            self.seq.append(k)
        if self.mode == "direct" and self.chosen == (k, n) and self.fired is None:
            self.fired = "direct"
            raise FaultInjected("injected at call ending line %d col %d, occurrence %d" % (k[0], k[1], n))

    def check(self, name="callable"):
        """called at the start of every user-supplied callable"""
        if self.current is not None:
            if self.mode == "record":
                self.reach.add(self.current)
            elif self.mode == "user" and self.current == self.chosen and self.fired is None:
                self.fired = "user callable %s" % name
                raise FaultInjected("user callable %s failed underneath the call ending at line %d col %d, occurrence %d"
                                    % (name, self.chosen[0][0], self.chosen[0][1], self.chosen[1]))

    def user(self, f, name=None):
        name = name or getattr(f, "__name__", "callable")

        def wrapper(*a, **kw):
            self.check(name)
            return f(*a, **kw)
        return wrapper

    @contextlib.contextmanager
    def active(self):
        mon = sys.monitoring
        tool = None
        for t in (4, 3, 5, 2, 1, 0):
            if mon.get_tool(t) is None:
                tool = t
                break
        if tool is None:
            raise RuntimeError("no free sys.monitoring tool id")
        mon.use_tool_id(tool, "vf-thx")
        mon.register_callback(tool, mon.events.CALL, self._on_call)
        mon.set_local_events(tool, self.code, mon.events.CALL)
        try:
            yield self
        finally:
            mon.set_local_events(tool, self.code, 0)
            mon.register_callback(tool, mon.events.CALL, None)
            mon.free_tool_id(tool)


def _cleanup_timers():
    """cancel whatever library timers are still alive (re-arming ones need several rounds)"""
    for _ in range(200):
        live = [t for t in threading.enumerate() if isinstance(t, _RealTimer) and t.is_alive()]
        if not live:
            return True
        for t in live:
            t.cancel()
        for t in live:
            t.join(0.05)
    return False


def _cleanup_executors():
    """shut down executors that the library left running (so that the check itself can exit)"""
    import gc
    import concurrent.futures as cf
    for o in gc.get_objects():
        try:
            if isinstance(o, cf.ThreadPoolExecutor) and not o._shutdown:
                o.shutdown(wait=True)
        except Exception:  # noqa
            pass


def run_api(driver, fn, mode, chosen=None, progress_type="bar", variant=None):
    """-> dict(exception, timers_alive=[...], fired, reach)"""
    hooks = Hooks(fn.__code__)
    hooks.variant = dict(variant or {})
    hooks.mode = mode
    hooks.chosen = chosen
    out = io.StringIO()
    res = {"exception": None, "timers_alive": [], "fired": None, "returned": False}
    before = set(threading.enumerate())
    old = sys.stdout
    sys.stdout = out
    try:
        with hooks.active():
            try:
                driver(hooks, progress_type)
                res["returned"] = True
            except FaultInjected as e:
                res["exception"] = "FaultInjected: %s" % e
            except Exception as e:  # noqa
                res["exception"] = "%s: %s" % (type(e).__name__, e)
        for t in [t for t in threading.enumerate() if t not in before and not isinstance(t, _RealTimer)]:
            t.join(0.3)          # workers of an executor that was shut down leave on their own
        alive = [t for t in threading.enumerate() if t not in before and t.is_alive()]
        res["timers_alive"] = ["%s(%s)" % (type(t).__name__, t.name) for t in alive if isinstance(t, _RealTimer) and not t.finished.is_set()]
        res["other_threads_alive"] = ["%s(%s)" % (type(t).__name__, t.name) for t in alive if not isinstance(t, _RealTimer)]
        res["threads"] = [t.name for t in threading.enumerate()]
    finally:
        sys.stdout = old
        res["cleanup_ok"] = _cleanup_timers()
        _cleanup_executors()
        hooks.keep.clear()
    res["fired"] = hooks.fired
    res["reach"] = hooks.reach
    res["counts"] = hooks.counts
    res["seq"] = hooks.seq
    res["stdout_bytes"] = len(out.getvalue())
    return res


# -- small real problems, one per API ------------------------------------------------------
def _bath_pt(oq, hooks, steps=3, dt=0.2):
    import numpy as np
    corr = oq.PowerLawSD(alpha=0.1, zeta=1, cutoff=1.0, cutoff_type="gaussian", temperature=0.0)
    bath = oq.Bath(0.5 * oq.operators.sigma("x"), corr)
    par = oq.TempoParameters(dt=dt, tcut=None, epsrel=1e-4)
    return oq.pt_tempo_compute(bath, start_time=0.0, end_time=steps * dt, parameters=par, progress_type="silent"), bath, par


def drv_compute_dynamics(hooks, ptype):
    import numpy as np
    import oqupy as oq
    ham = hooks.user(lambda t: 0.5 * (1.0 + t) * oq.operators.sigma("x"), "hamiltonian")
    system = oq.TimeDependentSystem(ham)
    oq.compute_dynamics(system, initial_state=oq.operators.spin_dm("z+"), dt=0.2, num_steps=4, progress_type=ptype,
                        **hooks.variant)


def drv_compute_dynamics_with_field(hooks, ptype):
    import numpy as np
    import oqupy as oq
    ham = hooks.user(lambda t, field: 0.5 * oq.operators.sigma("z") + 0.2 * np.abs(field) * oq.operators.sigma("x"), "hamiltonian")
    system = oq.TimeDependentSystemWithField(ham)
    eom = hooks.user(lambda t, states, field: -1j * field - 0.1j * np.matmul(oq.operators.sigma("y"), states[0]).trace().real, "field_eom")
    mfs = oq.MeanFieldSystem([system], eom)
    oq.compute_dynamics_with_field(mfs, 1.0 + 1.0j, initial_state_list=[oq.operators.spin_dm("z+")], dt=0.2, num_steps=4,
                                   progress_type=ptype, **hooks.variant)


def drv_compute_gradient_and_dynamics(hooks, ptype):
    import numpy as np
    import oqupy as oq
    from oqupy.gradient import compute_gradient_and_dynamics
    num_steps = 3
    def ham(hx):
        hooks.check("hamiltonian")
        return 0.5 * hx * oq.operators.sigma("x")
    system = oq.ParameterizedSystem(hamiltonian=ham)
    pt, _, _ = _bath_pt(oq, hooks, num_steps)
    tgt = oq.operators.spin_dm("x+").T
    target = hooks.user(lambda state: tgt, "target_derivative")
    compute_gradient_and_dynamics(system=system, initial_state=oq.operators.spin_dm("x-"), target_derivative=target,
                                  process_tensors=[pt], parameters=np.ones((2 * num_steps, 1)), progress_type=ptype,
                                  **hooks.variant)


def drv_chain_rule(hooks, ptype):
    import numpy as np
    import oqupy as oq
    num_steps = 3
    x0 = list(zip(np.ones(2 * num_steps)))
    system = oq.ParameterizedSystem(hamiltonian=lambda hx: 0.5 * hx * oq.operators.sigma("x"))
    props = hooks.user(system.get_propagators(0.2, x0), "propagators")
    dprops = hooks.user(system.get_propagator_derivatives(0.2, x0), "dprop_dparam")
    oq.gradient._chain_rule(adjoint_tensor=np.ones((4, 4, 4, 4, 4)), dprop_dparam=dprops, propagators=props,
                            num_steps=num_steps, num_parameters=1, progress_type=ptype)


def drv_tempo(hooks, ptype):
    import oqupy as oq
    ham = hooks.user(lambda t: 0.5 * (1.0 + t) * oq.operators.sigma("x"), "hamiltonian")
    system = oq.TimeDependentSystem(ham)
    corr = oq.PowerLawSD(alpha=0.1, zeta=1, cutoff=1.0, cutoff_type="gaussian", temperature=0.0)
    bath = oq.Bath(0.5 * oq.operators.sigma("z"), corr)
    par = oq.TempoParameters(dt=0.2, tcut=0.4, epsrel=1e-4)
    t = oq.Tempo(system=system, bath=bath, parameters=par, initial_state=oq.operators.spin_dm("z+"), start_time=0.0)
    t.compute(end_time=0.8, progress_type=ptype)


def drv_mean_field_tempo(hooks, ptype):
    import numpy as np
    import oqupy as oq
    ham = hooks.user(lambda t, field: 0.5 * oq.operators.sigma("z") + 0.2 * np.abs(field) * oq.operators.sigma("x"), "hamiltonian")
    system = oq.TimeDependentSystemWithField(ham)
    eom = hooks.user(lambda t, states, field: -1j * field - 0.1j * np.matmul(oq.operators.sigma("y"), states[0]).trace().real, "field_eom")
    mfs = oq.MeanFieldSystem([system], eom)
    corr = oq.PowerLawSD(alpha=0.1, zeta=1, cutoff=1.0, cutoff_type="gaussian", temperature=0.0)
    bath = oq.Bath(0.5 * oq.operators.sigma("z"), corr)
    par = oq.TempoParameters(dt=0.2, tcut=0.4, epsrel=1e-4)
    t = oq.MeanFieldTempo(mean_field_system=mfs, bath_list=[bath], parameters=par, initial_state_list=[oq.operators.spin_dm("z+")],
                          initial_field=1.0 + 0j, start_time=0.0)
    t.compute(end_time=0.8, progress_type=ptype)


def drv_pt_tempo(hooks, ptype):
    import oqupy as oq
    jw = hooks.user(lambda w: 0.1 * w, "spectral_density")
    corr = oq.CustomSD(jw, cutoff=1.0, cutoff_type="gaussian", temperature=0.0)
    bath = oq.Bath(0.5 * oq.operators.sigma("x"), corr)
    par = oq.TempoParameters(dt=0.2, tcut=0.4, epsrel=1e-4)
    p = oq.PtTempo(bath=bath, start_time=0.0, end_time=0.8, parameters=par)
    p.compute(progress_type=ptype)


def drv_gibbs_tempo(hooks, ptype):
    import oqupy as oq
    import oqupy.tempo as tempo
    jw = hooks.user(lambda w: 0.4 * w, "spectral_density")
    corr = oq.CustomSD(jw, 5.0, cutoff_type="exponential", temperature=0.5)
    bath = oq.Bath(0.5 * oq.operators.sigma("z"), corr)
    system = oq.System(0.5 * oq.operators.sigma("x"))
    g = tempo.GibbsTempo(system=system, bath=bath, parameters=tempo.GibbsParameters(6, 1.0e-4))
    g.compute(progress_type=ptype)


def drv_pt_tebd(hooks, ptype):
    import numpy as np
    import oqupy as oq
    up = oq.operators.spin_dm("z+")
    chain = oq.SystemChain(hilbert_space_dimensions=[2, 2])
    chain.add_site_hamiltonian(site=0, hamiltonian=0.5 * oq.operators.sigma("z"))
    mps = oq.AugmentedMPS([up, up])
    par = oq.PtTebdParameters(dt=0.2, order=2, epsrel=1.0e-4)
    p = oq.PtTebd(initial_augmented_mps=mps, system_chain=chain, process_tensors=[None, None], parameters=par)
    p.compute(end_step=3, progress_type=ptype)


def drv_pt_tebd_multithread(hooks, ptype):
    """4-site chain, documented back-end option {'parallel': 'multithread'}"""
    import oqupy as oq
    sx, sz, up = oq.operators.sigma("x"), oq.operators.sigma("z"), oq.operators.spin_dm("z+")
    n = 4
    chain = oq.SystemChain([2] * n)
    for k in range(n):
        chain.add_site_hamiltonian(site=k, hamiltonian=0.5 * sz)
    for k in range(n - 1):
        chain.add_nn_hamiltonian(site=k, hamiltonian_l=0.3 * sx, hamiltonian_r=sx)
    par = oq.PtTebdParameters(dt=0.1, order=2, epsrel=1.0e-6)
    p = oq.PtTebd(initial_augmented_mps=oq.AugmentedMPS([up] * n), system_chain=chain, process_tensors=[None] * n,
                  parameters=par, dynamics_sites=list(range(n)), backend_config={"parallel": "multithread"})
    hooks.keep.append(p)     # the user keeps the PtTebd object (results are read from it): its executor is not garbage
    p.compute(end_step=3, progress_type=ptype)


def drv_correlations_nt(hooks, ptype):
    import numpy as np
    import oqupy as oq
    from oqupy.system_dynamics import compute_correlations_nt
    ham = hooks.user(lambda t: 0.5 * (1.0 + t) * oq.operators.sigma("x"), "hamiltonian")
    system = oq.TimeDependentSystem(ham)
    pt, _, _ = _bath_pt(oq, hooks, 3)
    sz = oq.operators.sigma("z")
    compute_correlations_nt(system=system, process_tensor=pt, operators=[sz, sz], ops_times=[0.2, (0.2, 0.6)],
                            ops_order=["left", "left"], dt=0.2, initial_state=oq.operators.spin_dm("z+"), start_time=0.0,
                            progress_type=ptype)


VARIANTS = {
    "oqupy.system_dynamics.compute_dynamics": [{}, {"record_all": False}],
    "oqupy.system_dynamics.compute_dynamics_with_field": [{}, {"record_all": False}],
    "oqupy.gradient.compute_gradient_and_dynamics": [{}, {"record_all": False}],
}

EXEC_DRIVERS = {
    # outermost caller of the executor-constructing function -> driver
    "oqupy.pt_tebd.PtTebd.compute": drv_pt_tebd_multithread,
}

DRIVERS = {
    "oqupy.system_dynamics.compute_dynamics": drv_compute_dynamics,
    "oqupy.system_dynamics.compute_dynamics_with_field": drv_compute_dynamics_with_field,
    "oqupy.gradient.compute_gradient_and_dynamics": drv_compute_gradient_and_dynamics,
    "oqupy.gradient._chain_rule": drv_chain_rule,
    "oqupy.tempo.Tempo.compute": drv_tempo,
    "oqupy.tempo.MeanFieldTempo.compute": drv_mean_field_tempo,
    "oqupy.pt_tempo.PtTempo.compute": drv_pt_tempo,
    "oqupy.tempo.GibbsTempo.compute": drv_gibbs_tempo,
    "oqupy.pt_tebd.PtTebd.compute": drv_pt_tebd,
    "oqupy.system_dynamics.compute_correlations_nt": drv_correlations_nt,
}
